//! Grammar-based generator of Datadog search query *texts* (mirrors
//! `/repo/src/datadog/search/grammar.pest`), used by C30.
//!
//! The generator builds a small syntax tree (`Query` = items with optional conjunction and
//! modifier; clause = `*:*` | field? value | field? `(` query `)`; value = `*` | phrase | prefix |
//! comparison | range | term | glob) over *semantic* words (`Vec<Unit>`: a character plus an
//! "escape it anyway" flag) and writes it out as text, escaping every character that the grammar
//! does not allow bare at that position.  Input classes that belong to open known findings are
//! left out *by construction* through the `Excl` switches (`sanitize`).

use proptest::prelude::*;
use proptest::sample::select;

/// generator switches: `true` = leave the class out
#[derive(Clone, Copy, Debug, Default)]
pub struct Excl {
    /// `[a TO b}` / `{a TO b]`
    pub mixed_brackets: bool,
    /// numeric operands that become `Float(v)` with an integral (or non-finite) `v`
    pub float_integral: bool,
    /// attribute names (and `_exists_`/`_missing_` operands) that need or carry an escape
    pub attr_escape: bool,
    /// whitespace inside term / prefix / comparison-string values (escaped blanks, and multi-term
    /// runs that are not the whole query)
    pub space_in_value: bool,
    /// glob literals that need an escape
    pub glob_escape: bool,
    /// values that start with AND / OR / NOT / && / ||
    pub keyword_value: bool,
    /// a parenthesised `NOT *:*` that is a child of another node
    pub nodocs_child: bool,
    /// `NOT (NOT x)` as a member of an AND group
    pub double_neg_in_and: bool,
    /// `_exists_:( ... )` / `_missing_:( ... )`
    pub exists_scoped: bool,
    /// comparison operand that is a *string* starting like a number (escaped digit)
    pub numeric_string_cmp: bool,
    /// range bound that is still wrapped in quotes after one layer of quotes was removed
    pub quoted_range_string: bool,
    /// the literal text `UNICODE3000` in a term position
    pub unicode3000: bool,
    /// default-field glob whose first wildcard is a `?` after at least one literal (`a?`)
    pub default_glob_qmark: bool,
    /// range bound that is a lone backslash (unescapes to the empty string)
    pub empty_range_string: bool,
    /// term made only of Unicode white space (the rendered query trims to nothing)
    pub space_only_term: bool,
    /// glob that starts with AND / OR / NOT / && / ||
    pub keyword_glob: bool,
    /// comparison operand that overflows to an infinite float (`>1E400`)
    pub float_overflow_cmp: bool,
}

pub const KEYWORDS: [&str; 5] = ["AND", "OR", "NOT", "&&", "||"];
pub const U3000: &str = "UNICODE3000";

pub fn is_ws(c: char) -> bool {
    matches!(c, ' ' | '\t' | '\r' | '\n')
}

/// characters that can never stand bare inside a TERM
pub fn always_special(c: char) -> bool {
    is_ws(c) || matches!(c, '"' | '(' | ')' | '[' | ']' | '{' | '}' | '!' | ':' | '~' | '^' | '?' | '*' | '\\' | '>' | '<')
}

/// characters that cannot stand bare at the start of a TERM
pub fn start_special(c: char) -> bool {
    always_special(c) || matches!(c, '+' | '-' | '=')
}

pub fn starts_with_keyword(s: &str) -> bool {
    KEYWORDS.iter().any(|k| s.starts_with(k))
}

/// the parser's `unescape`
pub fn unescape(s: &str) -> String {
    let mut out = String::with_capacity(s.len());
    let mut esc = false;
    for c in s.chars() {
        if esc {
            out.push(c);
            esc = false;
        } else if c == '\\' {
            esc = true;
        } else {
            out.push(c);
        }
    }
    out
}

/// Does `s` (an unescaped value) need at least one escape to be written as a TERM?
pub fn needs_term_escape(s: &str) -> bool {
    s.is_empty()
        || starts_with_keyword(s)
        || s.contains(U3000)
        || s.chars().enumerate().any(|(i, c)| if i == 0 { start_special(c) } else { always_special(c) })
}

#[derive(Clone, Copy, Debug, PartialEq)]
pub struct Unit {
    pub c: char,
    /// write a backslash in front even where the grammar does not need one
    pub e: bool,
}

pub type Word = Vec<Unit>;

pub fn plain(w: &[Unit]) -> String {
    w.iter().map(|u| u.c).collect()
}

pub fn word_of(s: &str) -> Word {
    s.chars().map(|c| Unit { c, e: false }).collect()
}

/// TERM text of a word: every character the grammar does not allow bare is escaped
pub fn emit_term(w: &[Unit]) -> String {
    let p = plain(w);
    let kw = starts_with_keyword(&p);
    let mut out = String::new();
    let mut off = 0usize;
    for (i, u) in w.iter().enumerate() {
        let lit = p[off..].starts_with(U3000);
        let need = if i == 0 { start_special(u.c) || kw } else { always_special(u.c) } || lit;
        if need || u.e {
            out.push('\\');
        }
        out.push(u.c);
        off += u.c.len_utf8();
    }
    out
}

#[derive(Clone, Debug)]
pub struct Num {
    pub text: String,
}

#[derive(Clone, Debug)]
pub enum GUnit {
    Star,
    Q,
    Lit(Unit),
}

#[derive(Clone, Debug)]
pub enum RVal {
    Star,
    Num(Num),
    /// word, number of quote layers (0..=2)
    Word(Word, u8),
    /// `\` on its own
    LoneBackslash,
}

#[derive(Clone, Debug)]
pub enum CmpOperand {
    Num(Num),
    Word(Word),
}

#[derive(Clone, Debug)]
pub enum ValTok {
    Star,
    Phrase(Word),
    Prefix(Word),
    Cmp(&'static str, CmpOperand),
    Range { lsq: bool, lo: RVal, hi: RVal, rsq: bool, sp: u8 },
    Term(Word),
    Glob(Vec<GUnit>),
}

#[derive(Clone, Debug)]
pub enum Clause {
    MatchAll,
    Val(Option<Word>, ValTok, bool),
    Group(Option<Word>, Box<Query>, bool),
}

#[derive(Clone, Copy, Debug, PartialEq)]
pub enum Modifier {
    Not,
    Minus,
    Plus,
}

#[derive(Clone, Debug)]
pub struct Item {
    /// explicit conjunction in front (ignored for the first item)
    pub conj: Option<&'static str>,
    pub modifier: Option<Modifier>,
    pub body: Clause,
    /// separator written in front of the item (first item: nothing)
    pub sep: &'static str,
}

#[derive(Clone, Debug)]
pub struct Query {
    pub items: Vec<Item>,
}

// ------------------------------------------------------------------------------------------
// text

fn emit_phrase(w: &[Unit]) -> String {
    let mut out = String::from("\"");
    for u in w {
        if u.c == '"' || u.c == '\\' || u.e {
            out.push('\\');
        }
        out.push(u.c);
    }
    out.push('"');
    out
}

fn emit_range_word(w: &[Unit], quotes: u8) -> String {
    let mut out = String::new();
    for _ in 0..quotes {
        out.push('"');
    }
    for u in w {
        if u.c == '\\' || u.e {
            out.push('\\');
        }
        out.push(u.c);
    }
    for _ in 0..quotes {
        out.push('"');
    }
    out
}

pub fn emit_rval(v: &RVal) -> String {
    match v {
        RVal::Star => "*".to_string(),
        RVal::Num(n) => n.text.clone(),
        RVal::Word(w, q) => emit_range_word(w, *q),
        RVal::LoneBackslash => "\\".to_string(),
    }
}

fn glob_plain(g: &[GUnit]) -> String {
    g.iter()
        .map(|u| match u {
            GUnit::Star => '*',
            GUnit::Q => '?',
            GUnit::Lit(u) => u.c,
        })
        .collect()
}

fn emit_glob(g: &[GUnit]) -> String {
    let p = glob_plain(g);
    let kw = starts_with_keyword(&p);
    let mut out = String::new();
    let mut off = 0usize;
    for (i, u) in g.iter().enumerate() {
        match u {
            GUnit::Star => out.push('*'),
            GUnit::Q => out.push('?'),
            GUnit::Lit(u) => {
                let lit = p[off..].starts_with(U3000);
                let need = if i == 0 { start_special(u.c) || kw } else { always_special(u.c) } || lit;
                if need || u.e {
                    out.push('\\');
                }
                out.push(u.c);
            }
        }
        off += match u {
            GUnit::Lit(u) => u.c.len_utf8(),
            _ => 1,
        };
    }
    out
}

fn emit_val(v: &ValTok) -> String {
    match v {
        ValTok::Star => "*".to_string(),
        ValTok::Phrase(w) => emit_phrase(w),
        ValTok::Prefix(w) => format!("{}*", emit_term(w)),
        ValTok::Cmp(op, CmpOperand::Num(n)) => format!("{op}{}", n.text),
        ValTok::Cmp(op, CmpOperand::Word(w)) => format!("{op}{}", emit_term(w)),
        ValTok::Range { lsq, lo, hi, rsq, sp } => {
            let pad = if sp & 1 == 1 { " " } else { "" };
            let after_to = if sp & 2 == 2 { "" } else { " " };
            format!(
                "{}{pad}{} TO{after_to}{}{pad}{}",
                if *lsq { '[' } else { '{' },
                emit_rval(lo),
                emit_rval(hi),
                if *rsq { ']' } else { '}' }
            )
        }
        ValTok::Term(w) => emit_term(w),
        ValTok::Glob(g) => emit_glob(g),
    }
}

fn emit_clause(c: &Clause) -> String {
    match c {
        Clause::MatchAll => "*:*".to_string(),
        Clause::Val(f, v, sp) => match f {
            Some(f) => format!("{}:{}{}", emit_term(f), if *sp { " " } else { "" }, emit_val(v)),
            None => emit_val(v),
        },
        Clause::Group(f, q, sp) => {
            let pad = if *sp { " " } else { "" };
            match f {
                Some(f) => format!("{}:({pad}{}{pad})", emit_term(f), emit_query(q)),
                None => format!("({pad}{}{pad})", emit_query(q)),
            }
        }
    }
}

pub fn emit_query(q: &Query) -> String {
    let mut out = String::new();
    for (i, it) in q.items.iter().enumerate() {
        if i > 0 {
            out.push_str(it.sep);
            if let Some(c) = it.conj {
                out.push_str(c);
                out.push(' ');
            }
        }
        match it.modifier {
            Some(Modifier::Not) => out.push_str("NOT "),
            Some(Modifier::Minus) => out.push('-'),
            Some(Modifier::Plus) => out.push('+'),
            None => {}
        }
        out.push_str(&emit_clause(&it.body));
    }
    out
}

// ------------------------------------------------------------------------------------------
// exclusion of open-finding classes by construction

fn is_not(m: Option<Modifier>) -> bool {
    matches!(m, Some(Modifier::Not | Modifier::Minus))
}

/// what the parser turns a numeric operand / range bound text into fails the float rendering?
fn float_text_fails(text: &str, in_range: bool, x: &Excl) -> bool {
    let mut v = unescape(text);
    if in_range && v.len() >= 3 && v.starts_with('"') && v.ends_with('"') {
        v = v[1..v.len() - 1].to_string();
    }
    if v == "*" || v.parse::<i64>().is_ok() {
        return false;
    }
    match v.parse::<f64>() {
        Ok(f) => {
            if !f.is_finite() {
                return !in_range && x.float_overflow_cmp;
            }
            x.float_integral && f.to_string().parse::<i64>().is_ok()
        }
        Err(_) => false,
    }
}

/// longest prefix of `t` that the grammar's NUMERIC_TERM matches
pub fn numeric_prefix(t: &str) -> &str {
    fn num_value(b: &[u8], mut i: usize) -> Option<usize> {
        if b.get(i) == Some(&b'-') {
            i += 1;
        } else if b.get(i) == Some(&b'\\') && b.get(i + 1) == Some(&b'-') {
            i += 2;
        }
        let s = i;
        while b.get(i).is_some_and(u8::is_ascii_digit) {
            i += 1;
        }
        if i == s {
            return None;
        }
        if b.get(i) == Some(&b'.') && b.get(i + 1).is_some_and(u8::is_ascii_digit) {
            i += 1;
            while b.get(i).is_some_and(u8::is_ascii_digit) {
                i += 1;
            }
        }
        Some(i)
    }
    let b = t.as_bytes();
    let Some(mut end) = num_value(b, 0) else { return "" };
    if b.get(end) == Some(&b'E') {
        if let Some(e2) = num_value(b, end + 1) {
            end = e2;
        }
    }
    &t[..end]
}

fn still_quoted(text: &str) -> bool {
    let mut v = unescape(text);
    if v.len() >= 3 && v.starts_with('"') && v.ends_with('"') {
        v = v[1..v.len() - 1].to_string();
    }
    v.len() >= 3 && v.starts_with('"') && v.ends_with('"')
}

fn fix_value_word(w: &mut Word, x: &Excl, term_position: bool) {
    if x.space_in_value && term_position {
        w.retain(|u| !is_ws(u.c));
    }
    if x.unicode3000 && term_position && plain(w).contains(U3000) {
        w.retain(|u| u.c != 'U');
    }
    if w.is_empty() {
        w.push(Unit { c: 'x', e: false });
    }
    if x.keyword_value && term_position && starts_with_keyword(&plain(w)) {
        w.insert(0, Unit { c: 'x', e: false });
    }
    if x.space_only_term && term_position && w.iter().all(|u| u.c.is_whitespace()) {
        w.push(Unit { c: 'x', e: false });
    }
}

/// attribute names and `_exists_` operands while attribute escaping is an open finding: only
/// characters that may stand bare, no gratuitous escapes
fn fix_attr_word(w: &mut Word, x: &Excl) {
    if x.attr_escape {
        w.retain(|u| !always_special(u.c));
        while w.first().is_some_and(|u| start_special(u.c)) {
            w.remove(0);
        }
        for u in w.iter_mut() {
            u.e = false;
        }
        let p = plain(w);
        if p.is_empty() || starts_with_keyword(&p) || p.contains(U3000) {
            *w = word_of("@a");
        }
    } else {
        fix_value_word(w, x, true);
        if x.exists_scoped {
            let p = plain(w);
            // the visitor compares the *escaped* field text with these names
            if p == "_exists_" || p == "_missing_" || p == "_default_" {
                for u in w.iter_mut() {
                    u.e = false;
                }
            }
        }
    }
}

fn fix_rval(v: &mut RVal, x: &Excl) {
    if x.empty_range_string && matches!(v, RVal::LoneBackslash) {
        *v = RVal::Star;
    }
    if let RVal::Word(w, q) = v {
        w.retain(|u| !is_ws(u.c) && u.c != ']' && u.c != '}');
        if w.is_empty() {
            w.push(Unit { c: 'x', e: false });
        }
        if x.quoted_range_string && still_quoted(&emit_range_word(w, *q)) {
            w.retain(|u| u.c != '"');
            if w.is_empty() {
                w.push(Unit { c: 'x', e: false });
            }
            *q = (*q).min(1);
        }
    }
    if float_text_fails(&emit_rval(v), true, x) {
        *v = RVal::Num(Num { text: "1.5".to_string() });
    }
}

fn fix_val(v: &mut ValTok, field_plain: Option<&str>, x: &Excl) {
    let exists_field = matches!(field_plain, Some("_exists_" | "_missing_"));
    let default_field = matches!(field_plain, None | Some("_default_"));
    match v {
        ValTok::Star => {}
        ValTok::Phrase(w) => {
            if exists_field {
                fix_attr_word(w, x);
            }
        }
        ValTok::Prefix(w) => fix_value_word(w, x, true),
        ValTok::Term(w) => {
            if exists_field {
                fix_attr_word(w, x);
            } else {
                fix_value_word(w, x, true);
            }
        }
        ValTok::Cmp(_, CmpOperand::Num(n)) => {
            if float_text_fails(&n.text, false, x) {
                n.text = "1.5".to_string();
            }
        }
        ValTok::Cmp(_, CmpOperand::Word(w)) => {
            fix_value_word(w, x, true);
            if x.numeric_string_cmp {
                let p = plain(w);
                let mut cs = p.chars();
                let c0 = cs.next();
                let c1 = cs.next();
                let numeric_start =
                    c0.is_some_and(|c| c.is_ascii_digit()) || (c0 == Some('-') && c1.is_some_and(|c| c.is_ascii_digit()));
                if numeric_start {
                    for u in w.iter_mut().take(2) {
                        u.e = false;
                    }
                }
            }
            // a word such as `1.0x` is lexed as the number `1.0` followed by another clause `x`
            let t = emit_term(w);
            let np = numeric_prefix(&t);
            if !np.is_empty() {
                let rest = unescape(&t[np.len()..]);
                // (`>0+ NOT x` reads `+` as a modifier and `NOT` as a glob: keep the rest a plain word)
                let plain_rest = rest.chars().all(|c| c.is_alphanumeric() || c == '_' || c == '.');
                if float_text_fails(np, false, x) || (x.keyword_value && starts_with_keyword(&rest)) || ((x.keyword_value || x.keyword_glob) && !plain_rest) {
                    *v = ValTok::Cmp(">", CmpOperand::Num(Num { text: "1.5".to_string() }));
                }
            }
        }
        ValTok::Range { lsq, lo, hi, rsq, .. } => {
            if x.mixed_brackets {
                *rsq = *lsq;
            }
            fix_rval(lo, x);
            fix_rval(hi, x);
        }
        ValTok::Glob(g) => {
            if x.glob_escape {
                g.retain(|u| match u {
                    GUnit::Lit(u) => !always_special(u.c) || u.c == '*' || u.c == '?',
                    _ => true,
                });
                while matches!(g.first(), Some(GUnit::Lit(u)) if matches!(u.c, '+' | '-' | '=')) {
                    g.remove(0);
                }
            }
            if x.unicode3000 && glob_plain(g).contains(U3000) {
                g.retain(|u| !matches!(u, GUnit::Lit(u) if u.c == 'U'));
            }
            if g.is_empty() {
                g.push(GUnit::Star);
            }
            if x.keyword_glob && starts_with_keyword(&glob_plain(g)) {
                g.insert(0, GUnit::Lit(Unit { c: 'x', e: false }));
            }
            if x.default_glob_qmark && default_field {
                // text level: `\*?` is read as the term `*` followed by the glob `?`
                if let Some(k) = g.iter().position(|u| !matches!(u, GUnit::Lit(_))) {
                    if k > 0 && matches!(g[k], GUnit::Q) {
                        g[k] = GUnit::Star;
                    }
                }
                // `a?` on the default field is read as the term `a` followed by the glob `?`
                let wild = |u: &GUnit| match u {
                    GUnit::Lit(u) => u.c == '*' || u.c == '?',
                    _ => true,
                };
                if let Some(k) = g.iter().position(wild) {
                    let q = match &g[k] {
                        GUnit::Q => true,
                        GUnit::Lit(u) => u.c == '?',
                        GUnit::Star => false,
                    };
                    if k > 0 && q {
                        g[k] = GUnit::Star;
                    }
                }
            }
        }
    }
}

fn matchall_like(c: &Clause) -> bool {
    match c {
        Clause::MatchAll => true,
        Clause::Val(_, ValTok::Star, _) => true,
        Clause::Val(_, ValTok::Glob(g), _) => g.len() == 1 && matches!(g[0], GUnit::Star),
        Clause::Val(..) => false,
        Clause::Group(_, q, _) => q.items.len() == 1 && !is_not(q.items[0].modifier) && matchall_like(&q.items[0].body),
    }
}

/// does the parenthesised query come back as `MatchNoDocs`?
fn yields_nodocs(q: &Query) -> bool {
    q.items.len() == 1 && is_not(q.items[0].modifier) && matchall_like(&q.items[0].body)
}

/// does the item come back as `NegatedNode(NegatedNode(..))`?  If so, drop the outer NOT.
fn strip_double_neg(it: &mut Item) -> bool {
    let direct = is_not(it.modifier) && matches!(&it.body, Clause::Group(_, inner, _) if yields_negated(inner));
    if direct {
        it.modifier = None;
        return true;
    }
    if is_not(it.modifier) {
        return false;
    }
    match &mut it.body {
        Clause::Group(_, inner, _) if inner.items.len() == 1 => strip_double_neg(&mut inner.items[0]),
        _ => false,
    }
}

/// does the parenthesised query come back as a `NegatedNode`?
fn yields_negated(q: &Query) -> bool {
    if q.items.len() != 1 {
        return false;
    }
    let it = &q.items[0];
    if is_not(it.modifier) {
        return !matchall_like(&it.body);
    }
    match &it.body {
        Clause::Group(_, inner, _) => yields_negated(inner),
        _ => false,
    }
}

/// `>1e5`: the operand word is lexed as the number `1` and the rest (`e5`) starts a new clause,
/// which can merge with a following bare term into a multi-term value
fn splitting_cmp(it: &Item) -> bool {
    match &it.body {
        Clause::Val(_, ValTok::Cmp(_, CmpOperand::Word(w)), _) => {
            let t = emit_term(w);
            let np = numeric_prefix(&t);
            !np.is_empty() && np.len() < t.len()
        }
        _ => false,
    }
}

fn bare_default_term(it: &Item) -> bool {
    it.modifier.is_none() && matches!(&it.body, Clause::Val(None, ValTok::Term(_), _))
}

/// `alone`: the query is rendered on its own at the top (every enclosing query has a single,
/// non-negated item and no field scope), so that its node is the root of the parsed tree.
pub fn sanitize(q: &mut Query, x: &Excl, alone: bool) {
    let n = q.items.len();
    if let Some(first) = q.items.first_mut() {
        first.conj = None;
    }
    // leaves
    for it in q.items.iter_mut() {
        match &mut it.body {
            Clause::MatchAll => {}
            Clause::Val(f, v, _) => {
                if let Some(f) = f {
                    fix_attr_word(f, x);
                }
                let fp = f.as_ref().map(|f| plain(f));
                fix_val(v, fp.as_deref(), x);
            }
            Clause::Group(f, inner, _) => {
                if let Some(fw) = f {
                    fix_attr_word(fw, x);
                    let p = plain(fw);
                    if x.exists_scoped && (p == "_exists_" || p == "_missing_") {
                        *fw = word_of("@a");
                    }
                }
                let child_alone = alone && n == 1 && !is_not(it.modifier) && f.is_none();
                sanitize(inner, x, child_alone);
                if x.nodocs_child && !child_alone && yields_nodocs(inner) {
                    inner.items[0].modifier = None;
                }
            }
        }
    }
    // multi-term runs (adjacent bare default-field terms are read as ONE term "a b")
    if x.space_in_value {
        let whole = alone && q.items.iter().all(bare_default_term) && q.items.iter().skip(1).all(|it| it.conj.is_none());
        if !whole {
            for i in 1..n {
                if bare_default_term(&q.items[i]) && q.items[i].conj.is_none() && (bare_default_term(&q.items[i - 1]) || splitting_cmp(&q.items[i - 1])) {
                    q.items[i].conj = Some("AND");
                }
            }
        }
    }
    // NOT (NOT x) inside an AND group of >= 2 members
    if x.double_neg_in_and {
        // and-groups are separated by OR conjunctions
        let mut group_of = vec![0usize; n];
        let mut g = 0usize;
        for i in 0..n {
            if i > 0 && matches!(q.items[i].conj, Some("OR" | "||")) {
                g += 1;
            }
            group_of[i] = g;
        }
        for i in 0..n {
            let size = group_of.iter().filter(|x| **x == group_of[i]).count();
            if size >= 2 {
                // NOT (NOT (NOT x)): strip until no double negation is left
                while strip_double_neg(&mut q.items[i]) {}
            }
        }
    }
}

// ------------------------------------------------------------------------------------------
// strategies

const LETTERS: &[char] = &['a', 'b', 'c', 'x', 'y', 'z', 'f', 'o', 'A', 'N', 'D', 'O', 'R', 'T', 'E', '0', '1', '2', '5', '9'];
const PUNCT: &[char] = &['_', '.', '@', '/', ',', '#', '%', '&', '|', '\'', ';', '$', '+', '-', '='];
const SPECIALS: &[char] = &[':', '!', '(', ')', '{', '}', '[', ']', '^', '"', '~', '*', '?', '\\', '>', '<', '+', '-', '='];
const BLANKS: &[char] = &[' ', ' ', '\t', '\n', '\r'];
const WIDE: &[char] = &['é', 'ß', '日', '\u{3000}', '\u{a0}', '😀', 'Ω'];
const CHUNKS: &[&str] = &["AND", "OR", "NOT", "&&", "||", "TO", U3000, "NaN", "inf", "-inf", "1", "10", "1.0", "-5", "1e5", "5.", "_exists_", "foo", "bar"];
const FIELDS: &[&str] = &["@a", "@b.c", "tag1", "host", "service", "_exists_", "_missing_", "_default_", "a-b", "@a-b", "message", "tags", "@\"a-b\"", "a:b", "a b"];

fn unit() -> impl Strategy<Value = Unit> {
    (
        prop_oneof![
            10 => select(LETTERS),
            3 => select(PUNCT),
            3 => select(SPECIALS),
            1 => select(BLANKS),
            1 => select(WIDE),
        ],
        prop::bool::weighted(0.1),
    )
        .prop_map(|(c, e)| Unit { c, e })
}

pub fn word() -> impl Strategy<Value = Word> {
    prop_oneof![
        8 => prop::collection::vec(unit(), 1..=5),
        2 => (select(CHUNKS), prop::collection::vec(unit(), 0..=2), prop::bool::weighted(0.15)).prop_map(|(c, tail, e)| {
            let mut w = word_of(c);
            if e {
                w[0].e = true;
            }
            w.extend(tail);
            w
        }),
    ]
}

fn field() -> impl Strategy<Value = Word> {
    prop_oneof![
        6 => select(FIELDS).prop_map(word_of),
        2 => word(),
    ]
}

fn digits(max: usize) -> impl Strategy<Value = String> {
    prop_oneof![
        6 => prop::collection::vec(select(&['0', '1', '2', '5', '9'][..]), 1..=3).prop_map(|v| v.into_iter().collect::<String>()),
        1 => prop::collection::vec(select(&['0', '1', '7', '9'][..]), 1..=max).prop_map(|v| v.into_iter().collect::<String>()),
        1 => Just("9223372036854775807".to_string()),
        1 => Just("9223372036854775808".to_string()),
    ]
}

fn num() -> impl Strategy<Value = Num> {
    let sign = || prop_oneof![6 => Just(""), 2 => Just("-"), 1 => Just("\\-")];
    (sign(), digits(21), prop::option::weighted(0.4, digits(6)), prop::option::weighted(0.15, (sign(), digits(2), prop::option::weighted(0.2, digits(2)))))
        .prop_map(|(s, i, f, e)| {
            let mut t = format!("{s}{i}");
            if let Some(f) = f {
                t.push('.');
                t.push_str(&f);
            }
            if let Some((es, ed, ef)) = e {
                t.push('E');
                t.push_str(es);
                t.push_str(&ed);
                if let Some(ef) = ef {
                    t.push('.');
                    t.push_str(&ef);
                }
            }
            Num { text: t }
        })
}

fn rval() -> impl Strategy<Value = RVal> {
    prop_oneof![
        3 => Just(RVal::Star),
        1 => Just(RVal::LoneBackslash),
        5 => num().prop_map(RVal::Num),
        4 => (word(), prop_oneof![6 => Just(0u8), 3 => Just(1u8), 1 => Just(2u8)]).prop_map(|(w, q)| RVal::Word(w, q)),
    ]
}

fn glob() -> impl Strategy<Value = Vec<GUnit>> {
    let gu = || prop_oneof![3 => Just(GUnit::Star), 2 => Just(GUnit::Q), 6 => unit().prop_map(GUnit::Lit)];
    (prop::collection::vec(gu(), 0..=3), prop_oneof![Just(GUnit::Star), Just(GUnit::Q)], prop::collection::vec(gu(), 0..=3)).prop_map(|(mut a, m, b)| {
        a.push(m);
        a.extend(b);
        a
    })
}

fn val() -> impl Strategy<Value = ValTok> {
    let op = || select(&[">", ">=", "<", "<="][..]);
    prop_oneof![
        1 => Just(ValTok::Star),
        3 => prop::collection::vec(unit(), 0..=6).prop_map(ValTok::Phrase),
        3 => word().prop_map(ValTok::Prefix),
        3 => (op(), prop_oneof![3 => num().prop_map(CmpOperand::Num), 2 => word().prop_map(CmpOperand::Word)]).prop_map(|(o, v)| ValTok::Cmp(o, v)),
        4 => (any::<bool>(), rval(), rval(), prop::bool::weighted(0.12), 0u8..4).prop_map(|(lsq, lo, hi, mix, sp)| ValTok::Range { lsq, lo, hi, rsq: lsq != mix, sp }),
        6 => word().prop_map(ValTok::Term),
        3 => glob().prop_map(ValTok::Glob),
    ]
}

fn leaf_clause() -> impl Strategy<Value = Clause> {
    prop_oneof![
        1 => Just(Clause::MatchAll),
        12 => (prop::option::weighted(0.6, field()), val(), prop::bool::weighted(0.05)).prop_map(|(f, v, sp)| Clause::Val(f, v, sp)),
    ]
}

fn item(body: BoxedStrategy<Clause>) -> impl Strategy<Value = Item> {
    (
        prop::option::weighted(0.6, select(&["AND", "OR", "&&", "||", "AND", "OR"][..])),
        prop::option::weighted(0.3, select(&[Modifier::Not, Modifier::Minus, Modifier::Plus, Modifier::Not][..])),
        body,
        prop_oneof![8 => Just(" "), 1 => Just("  "), 1 => Just("\t")],
    )
        .prop_map(|(conj, modifier, body, sep)| Item { conj, modifier, body, sep })
}

pub fn query(depth: u32) -> BoxedStrategy<Query> {
    let body: BoxedStrategy<Clause> = if depth == 0 {
        leaf_clause().boxed()
    } else {
        prop_oneof![
            5 => leaf_clause(),
            2 => (prop::option::weighted(0.3, field()), query(depth - 1), prop::bool::weighted(0.1)).prop_map(|(f, q, sp)| Clause::Group(f, Box::new(q), sp)),
        ]
        .boxed()
    };
    prop::collection::vec(item(body), 1..=4).prop_map(|items| Query { items }).boxed()
}

/// query text of the grammar generator, with the classes of `x` left out
pub fn query_text(x: Excl) -> impl Strategy<Value = String> {
    prop_oneof![2 => query(1), 3 => query(2), 2 => query(3), 1 => query(4)].prop_map(move |mut q| {
        let before = if std::env::var_os("DDQ_DEBUG").is_some() { Some(q.clone()) } else { None };
        sanitize(&mut q, &x, true);
        let t = emit_query(&q);
        if let (Some(b), Ok(pat)) = (before, std::env::var("DDQ_DEBUG")) {
            if t == pat {
                eprintln!("DDQ_DEBUG {t:?}\n  excl {x:?}\n  before {b:?}\n  after {q:?}");
            }
        }
        t
    })
}

/// token-level mutations of a text
pub fn mutate(text: &str, ops: &[(u8, u16, u16)]) -> String {
    const INS: &[&str] = &["(", ")", "[", "]", "{", "}", "\"", ":", "*", "?", "\\", "-", "+", "<", ">", "=", "!", " ", " AND ", " OR ", "NOT ", " TO ", "~", "^"];
    let mut cs: Vec<char> = text.chars().collect();
    for (kind, pos, pay) in ops {
        let len = cs.len();
        let at = if len == 0 { 0 } else { (*pos as usize) % (len + 1) };
        match kind % 5 {
            0 => {
                if at < len {
                    cs.remove(at);
                }
            }
            1 => {
                if at < len {
                    let c = cs[at];
                    cs.insert(at, c);
                }
            }
            2 => {
                if at + 1 < len {
                    cs.swap(at, at + 1);
                }
            }
            3 => {
                let s = INS[(*pay as usize) % INS.len()];
                for (k, c) in s.chars().enumerate() {
                    cs.insert(at + k, c);
                }
            }
            _ => {
                if at < len {
                    let s = INS[(*pay as usize) % INS.len()];
                    cs.remove(at);
                    for (k, c) in s.chars().enumerate() {
                        cs.insert(at + k, c);
                    }
                }
            }
        }
    }
    cs.into_iter().collect()
}

pub fn mutated_text(x: Excl) -> impl Strategy<Value = String> {
    (query_text(x), prop::collection::vec((0u8..5, any::<u16>(), any::<u16>()), 1..=3)).prop_map(|(t, ops)| mutate(&t, &ops))
}
