//! Path generators over the shared field vocabulary.

use proptest::prelude::*;
use serde::{Deserialize, Serialize};
use vrl::path::{OwnedSegment, OwnedTargetPath, OwnedValuePath, PathPrefix};

use super::value::{field, ustring};

#[derive(Clone, PartialEq, Eq, Hash, PartialOrd, Ord, Serialize, Deserialize)]
pub enum Seg {
    F(String),
    I(i64),
}

impl std::fmt::Debug for Seg {
    fn fmt(&self, f: &mut std::fmt::Formatter<'_>) -> std::fmt::Result {
        match self {
            Seg::F(s) => write!(f, ".{s:?}"),
            Seg::I(i) => write!(f, "[{i}]"),
        }
    }
}

pub type SegPath = Vec<Seg>;

pub fn to_owned_path(p: &[Seg]) -> OwnedValuePath {
    OwnedValuePath {
        segments: p
            .iter()
            .map(|s| match s {
                Seg::F(f) => OwnedSegment::field(f),
                Seg::I(i) => OwnedSegment::index(*i as isize),
            })
            .collect(),
    }
}

pub fn from_owned_path(p: &OwnedValuePath) -> SegPath {
    p.segments
        .iter()
        .map(|s| match s {
            OwnedSegment::Field(f) => Seg::F(f.to_string()),
            OwnedSegment::Index(i) => Seg::I(*i as i64),
        })
        .collect()
}

pub fn to_target_path(meta: bool, p: &[Seg]) -> OwnedTargetPath {
    OwnedTargetPath { prefix: if meta { PathPrefix::Metadata } else { PathPrefix::Event }, path: to_owned_path(p) }
}

pub fn seg() -> impl Strategy<Value = Seg> {
    prop_oneof![
        6 => field().prop_map(Seg::F),
        2 => (0i64..=3).prop_map(Seg::I),
        2 => (-4i64..=4).prop_map(Seg::I),
        1 => (-9i64..=12).prop_map(Seg::I),
    ]
}

/// paths of 0..=max segments (root included when `min` is 0)
pub fn path(min: usize, max: usize) -> impl Strategy<Value = SegPath> {
    proptest::collection::vec(seg(), min..=max)
}

/// segments with arbitrary field text and wide indices, for text round-trips
pub fn wild_seg() -> impl Strategy<Value = Seg> {
    prop_oneof![
        4 => field().prop_map(Seg::F),
        4 => ustring(6).prop_map(Seg::F),
        2 => (-5i64..=5).prop_map(Seg::I),
        1 => any::<i32>().prop_map(|i| Seg::I(i64::from(i))),
        1 => prop_oneof![Just(isize::MAX as i64), Just(isize::MIN as i64), Just(isize::MIN as i64 + 1), Just(-1i64), Just(0i64)].prop_map(Seg::I),
    ]
}
