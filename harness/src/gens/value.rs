//! Lossless, serialisable mirror of `vrl::value::Value` plus edge-biased generators.

use std::collections::BTreeMap;
use std::fmt;

use bytes::Bytes;
use chrono::{DateTime, TimeZone, Utc};
use ordered_float::NotNan;
use proptest::prelude::*;
use serde::{Deserialize, Serialize};
use vrl::value::{KeyString, Value};

#[derive(Clone, PartialEq, Serialize, Deserialize)]
pub enum TV {
    Null,
    Bool(bool),
    Int(i64),
    /// non-NaN float, serialised through its shortest round-tripping decimal text
    Float(FloatText),
    /// valid UTF-8 bytes
    Str(String),
    /// arbitrary bytes, hex encoded (only used when not valid UTF-8)
    Bin(String),
    Ts { s: i64, n: u32 },
    Regex(String),
    Array(Vec<TV>),
    Object(BTreeMap<String, TV>),
}

#[derive(Clone, Copy)]
pub struct FloatText(pub f64);

impl PartialEq for FloatText {
    fn eq(&self, o: &Self) -> bool {
        self.0.to_bits() == o.0.to_bits()
    }
}

impl Serialize for FloatText {
    fn serialize<S: serde::Serializer>(&self, s: S) -> Result<S::Ok, S::Error> {
        s.serialize_str(&format!("{:?}", self.0))
    }
}

impl<'de> Deserialize<'de> for FloatText {
    fn deserialize<D: serde::Deserializer<'de>>(d: D) -> Result<Self, D::Error> {
        let s = String::deserialize(d)?;
        s.parse::<f64>().map(FloatText).map_err(serde::de::Error::custom)
    }
}

impl fmt::Debug for TV {
    fn fmt(&self, f: &mut fmt::Formatter<'_>) -> fmt::Result {
        match self {
            TV::Null => write!(f, "null"),
            TV::Bool(b) => write!(f, "{b}"),
            TV::Int(i) => write!(f, "{i}"),
            TV::Float(x) => write!(f, "{:?}f", x.0),
            TV::Str(s) => write!(f, "{s:?}"),
            TV::Bin(h) => write!(f, "x'{h}'"),
            TV::Ts { s, n } => write!(f, "t({s},{n})"),
            TV::Regex(r) => write!(f, "r'{r}'"),
            TV::Array(a) => f.debug_list().entries(a.iter()).finish(),
            TV::Object(o) => f.debug_map().entries(o.iter()).finish(),
        }
    }
}

impl TV {
    pub fn float(x: f64) -> TV {
        assert!(!x.is_nan());
        TV::Float(FloatText(x))
    }
    pub fn bytes(b: &[u8]) -> TV {
        match std::str::from_utf8(b) {
            Ok(s) => TV::Str(s.to_string()),
            Err(_) => TV::Bin(hex::encode(b)),
        }
    }
    pub fn str(s: &str) -> TV {
        TV::Str(s.to_string())
    }
    pub fn obj<I: IntoIterator<Item = (String, TV)>>(it: I) -> TV {
        TV::Object(it.into_iter().collect())
    }
    pub fn as_bytes(&self) -> Option<Vec<u8>> {
        match self {
            TV::Str(s) => Some(s.as_bytes().to_vec()),
            TV::Bin(h) => hex::decode(h).ok(),
            _ => None,
        }
    }
    pub fn is_container(&self) -> bool {
        matches!(self, TV::Array(_) | TV::Object(_))
    }
    pub fn depth(&self) -> usize {
        match self {
            TV::Array(a) => 1 + a.iter().map(TV::depth).max().unwrap_or(0),
            TV::Object(o) => 1 + o.values().map(TV::depth).max().unwrap_or(0),
            _ => 0,
        }
    }
    pub fn size(&self) -> usize {
        match self {
            TV::Array(a) => 1 + a.iter().map(TV::size).sum::<usize>(),
            TV::Object(o) => 1 + o.values().map(TV::size).sum::<usize>(),
            _ => 1,
        }
    }

    pub fn to_value(&self) -> Value {
        match self {
            TV::Null => Value::Null,
            TV::Bool(b) => Value::Boolean(*b),
            TV::Int(i) => Value::Integer(*i),
            TV::Float(x) => Value::Float(NotNan::new(x.0).expect("TV floats are never NaN")),
            TV::Str(s) => Value::Bytes(Bytes::from(s.clone().into_bytes())),
            TV::Bin(h) => Value::Bytes(Bytes::from(hex::decode(h).expect("hex"))),
            TV::Ts { s, n } => Value::Timestamp(ts(*s, *n)),
            TV::Regex(r) => Value::Regex(regex::Regex::new(r).expect("generated regexes are valid").into()),
            TV::Array(a) => Value::Array(a.iter().map(TV::to_value).collect()),
            TV::Object(o) => Value::Object(o.iter().map(|(k, v)| (KeyString::from(k.as_str()), v.to_value())).collect()),
        }
    }

    pub fn from_value(v: &Value) -> TV {
        match v {
            Value::Null => TV::Null,
            Value::Boolean(b) => TV::Bool(*b),
            Value::Integer(i) => TV::Int(*i),
            Value::Float(x) => TV::Float(FloatText(x.into_inner())),
            Value::Bytes(b) => TV::bytes(b),
            Value::Timestamp(t) => TV::Ts { s: t.timestamp(), n: t.timestamp_subsec_nanos() },
            Value::Regex(r) => TV::Regex(r.as_str().to_string()),
            Value::Array(a) => TV::Array(a.iter().map(TV::from_value).collect()),
            Value::Object(o) => TV::Object(o.iter().map(|(k, v)| (k.to_string(), TV::from_value(v))).collect()),
        }
    }
}

pub fn ts(s: i64, n: u32) -> DateTime<Utc> {
    Utc.timestamp_opt(s, n).single().expect("generated timestamps are in chrono's range")
}

// ------------------------------------------------------------------------------------------
// scalar generators

pub const INT_EDGES: &[i64] = &[
    0,
    1,
    -1,
    2,
    -2,
    7,
    10,
    255,
    256,
    -128,
    65_535,
    2_147_483_647,
    2_147_483_648,
    -2_147_483_648,
    -2_147_483_649,
    4_294_967_295,
    4_294_967_296,
    9_007_199_254_740_991,
    9_007_199_254_740_992,
    9_007_199_254_740_993,
    -9_007_199_254_740_992,
    -9_007_199_254_740_993,
    1_000_000_000_000_000_000,
    i64::MAX,
    i64::MAX - 1,
    i64::MIN,
    i64::MIN + 1,
];

pub fn int_edge() -> impl Strategy<Value = i64> {
    (0..INT_EDGES.len()).prop_map(|i| INT_EDGES[i])
}

/// edge-biased i64
pub fn int() -> impl Strategy<Value = i64> {
    prop_oneof![
        3 => int_edge(),
        3 => -20i64..=20,
        2 => any::<i64>(),
        1 => (int_edge(), -3i64..=3).prop_map(|(e, d)| e.wrapping_add(d)),
        1 => (0u32..63, any::<bool>(), -2i64..=2).prop_map(|(sh, neg, d)| {
            let v = (1i64 << sh).wrapping_add(d);
            if neg { v.wrapping_neg() } else { v }
        }),
    ]
}

pub fn small_int() -> impl Strategy<Value = i64> {
    prop_oneof![4 => -6i64..=6, 1 => -1000i64..=1000]
}

pub const FLOAT_EDGES: &[f64] = &[
    0.0,
    -0.0,
    1.0,
    -1.0,
    0.5,
    1.5,
    -1.5,
    2.5,
    0.1,
    0.2,
    0.3,
    1e-7,
    123.456,
    f64::MIN_POSITIVE,
    -f64::MIN_POSITIVE,
    5e-324,
    -5e-324,
    2.2250738585072009e-308,
    9_007_199_254_740_992.0,
    9_007_199_254_740_994.0,
    -9_007_199_254_740_992.0,
    9.223372036854775807e18,
    -9.223372036854775808e18,
    1.8446744073709552e19,
    1e15,
    1e16,
    1e21,
    1e22,
    1e300,
    -1e300,
    f64::MAX,
    f64::MIN,
    f64::INFINITY,
    f64::NEG_INFINITY,
    f64::EPSILON,
    4_294_967_296.0,
    0.30000000000000004,
    2.2000917086977154e-75,
];

/// edge-biased non-NaN f64 (finite and infinite)
pub fn float() -> impl Strategy<Value = f64> {
    prop_oneof![
        3 => (0..FLOAT_EDGES.len()).prop_map(|i| FLOAT_EDGES[i]),
        2 => (-1000i64..=1000, 0u32..=4).prop_map(|(m, e)| m as f64 / 10f64.powi(e as i32)),
        2 => any::<u64>().prop_map(f64::from_bits).prop_filter_map("nan", |x| if x.is_nan() { None } else { Some(x) }),
        1 => -1.0e6..1.0e6f64,
        1 => int().prop_map(|i| i as f64),
        1 => ((0..FLOAT_EDGES.len()), -2i64..=2).prop_map(|(i, d)| {
            let x = FLOAT_EDGES[i];
            if !x.is_finite() { return x; }
            let y = f64::from_bits((x.to_bits() as i64).wrapping_add(d) as u64);
            if y.is_nan() { x } else { y }
        }),
    ]
}

pub fn finite_float() -> impl Strategy<Value = f64> {
    float().prop_map(|x| if x.is_finite() { x } else if x > 0.0 { f64::MAX } else { f64::MIN })
}

/// characters that stress text handling
pub const SPECIAL_CHARS: &[char] = &[
    'a', 'b', 'c', 'A', 'Z', 'z', '0', '1', '9', ' ', ' ', '\t', '\n', '\r', '"', '\'', '\\', '=', ':', ',', ';', '|', '.', '-', '_',
    '%', '{', '}', '[', ']', '(', ')', '*', '?', '+', '^', '$', '/', '@', '#', '&', '<', '>', '~', '`', '!', '\0', '\u{7f}', 'é',
    'ß', 'İ', 'ǆ', 'ς', 'Σ', 'ü', '日', '本', '\u{0301}', '\u{200b}', '\u{2028}', '\u{a0}', '\u{3000}', '\u{feff}', '😀',
    '\u{10ffff}', '\u{d7ff}', '\u{e000}', 'ﬁ', 'ı', 'K',
];

pub fn special_char() -> impl Strategy<Value = char> {
    prop_oneof![
        6 => (0..SPECIAL_CHARS.len()).prop_map(|i| SPECIAL_CHARS[i]),
        3 => proptest::char::range('a', 'z'),
        1 => any::<char>(),
    ]
}

/// Unicode string over the stress alphabet
pub fn ustring(max: usize) -> impl Strategy<Value = String> {
    prop_oneof![
        8 => proptest::collection::vec(special_char(), 0..=max).prop_map(|v| v.into_iter().collect::<String>()),
        1 => Just(String::new()),
        2 => "[a-z]{1,8}",
        1 => "[a-zA-Z0-9 ]{0,16}",
    ]
}

pub fn plain_string() -> impl Strategy<Value = String> {
    prop_oneof![3 => "[a-z]{1,6}", 1 => "[a-zA-Z0-9_]{0,10}", 1 => Just(String::new())]
}

/// arbitrary bytes (often invalid UTF-8)
pub fn raw_bytes(max: usize) -> impl Strategy<Value = Vec<u8>> {
    prop_oneof![
        3 => proptest::collection::vec(any::<u8>(), 0..=max),
        2 => ustring(max / 2 + 1).prop_map(|s| s.into_bytes()),
        1 => (any::<u8>(), 0..=max).prop_map(|(b, n)| vec![b; n]),
        1 => proptest::collection::vec(prop_oneof![Just(0u8), Just(0xffu8), Just(0x80u8), Just(b'a'), Just(0xc3u8), Just(0xe2u8), Just(0xf0u8)], 0..=max.min(24)),
    ]
}

/// seconds range where chrono can represent the instant (≈ ±262 000 years)
pub const TS_MIN: i64 = -8_334_601_228_800; // -262143-01-01
pub const TS_MAX: i64 = 8_210_266_876_799; // +262142-12-31

pub fn timestamp() -> impl Strategy<Value = (i64, u32)> {
    let secs = prop_oneof![
        3 => prop_oneof![Just(0i64), Just(-1), Just(1), Just(1_700_000_000), Just(951_782_400), Just(4_102_444_800), Just(-62_135_596_800), Just(253_402_300_799), Just(-62_167_219_200), Just(TS_MIN), Just(TS_MAX), Just(i64::from(i32::MAX)), Just(i64::from(i32::MIN))],
        3 => 0i64..4_102_444_800,
        2 => -62_167_219_200i64..253_402_300_800,
        1 => TS_MIN..=TS_MAX,
    ];
    let nanos = prop_oneof![
        3 => Just(0u32),
        1 => Just(999_999_999u32),
        1 => Just(1u32),
        1 => (0u32..1000).prop_map(|m| m * 1_000_000),
        1 => (0u32..1_000_000).prop_map(|m| m * 1000),
        2 => 0u32..1_000_000_000,
    ];
    (secs, nanos)
}

pub const REGEXES: &[&str] = &["a", "^a+$", "[0-9]+", "(?i)x", "", "\\s", "(?P<n>b)c", "é|ß"];

pub fn regex_src() -> impl Strategy<Value = String> {
    (0..REGEXES.len()).prop_map(|i| REGEXES[i].to_string())
}

// ------------------------------------------------------------------------------------------
// structured values

/// shared field vocabulary, so that paths and values meet often
pub const FIELDS: &[&str] = &["a", "b", "c", "d", "x y", "0", "k", "foo", "é", "a.b", "", "_", "@t", "A"];

pub fn field() -> impl Strategy<Value = String> {
    prop_oneof![
        10 => (0..6usize).prop_map(|i| FIELDS[i].to_string()),
        3 => (0..FIELDS.len()).prop_map(|i| FIELDS[i].to_string()),
        1 => ustring(5),
    ]
}

#[derive(Clone, Copy, Debug, PartialEq, Eq)]
pub struct Profile {
    pub timestamps: bool,
    pub regexes: bool,
    pub invalid_utf8: bool,
    pub infinities: bool,
    pub wide_strings: bool,
}

pub const FULL: Profile = Profile { timestamps: true, regexes: true, invalid_utf8: true, infinities: true, wide_strings: true };
pub const JSON: Profile = Profile { timestamps: false, regexes: false, invalid_utf8: false, infinities: false, wide_strings: true };
/// values a VRL program can hold without surprises when printed as literals
pub const SIMPLE: Profile = Profile { timestamps: true, regexes: false, invalid_utf8: false, infinities: false, wide_strings: false };

pub fn scalar(p: Profile) -> BoxedStrategy<TV> {
    let mut opts: Vec<(u32, BoxedStrategy<TV>)> = vec![
        (2, Just(TV::Null).boxed()),
        (2, any::<bool>().prop_map(TV::Bool).boxed()),
        (5, int().prop_map(TV::Int).boxed()),
        (
            4,
            if p.infinities { float().prop_map(TV::float).boxed() } else { finite_float().prop_map(TV::float).boxed() },
        ),
        (5, if p.wide_strings { ustring(12).prop_map(TV::Str).boxed() } else { plain_string().prop_map(TV::Str).boxed() }),
    ];
    if p.invalid_utf8 {
        opts.push((1, raw_bytes(12).prop_map(|b| TV::bytes(&b)).boxed()));
    }
    if p.timestamps {
        opts.push((2, timestamp().prop_map(|(s, n)| TV::Ts { s, n }).boxed()));
    }
    if p.regexes {
        opts.push((1, regex_src().prop_map(TV::Regex).boxed()));
    }
    proptest::strategy::Union::new_weighted(opts).boxed()
}

pub fn value(p: Profile, depth: u32) -> BoxedStrategy<TV> {
    let leaf = scalar(p);
    leaf.prop_recursive(depth, 48, 5, move |inner| {
        prop_oneof![
            1 => proptest::collection::vec(inner.clone(), 0..=4).prop_map(TV::Array),
            1 => proptest::collection::btree_map(field(), inner, 0..=4).prop_map(TV::Object),
        ]
    })
    .boxed()
}

/// a value that is always a container at the root (objects favoured), for events
pub fn object(p: Profile, depth: u32) -> BoxedStrategy<TV> {
    proptest::collection::btree_map(field(), value(p, depth.saturating_sub(1)), 0..=5).prop_map(TV::Object).boxed()
}

/// monotone index mapping so that shrinking a generated integer moves towards element 0
pub fn pick<T: Clone>(items: &[T], raw: u16) -> T {
    let i = (raw as usize * items.len()) >> 16;
    items[i.min(items.len() - 1)].clone()
}
