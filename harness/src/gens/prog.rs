//! The harness's own program AST (`E`) and its pretty-printer to VRL source.
//!
//! Every binary operation is parenthesised and every statement sequence is printed in braces,
//! one statement per line, so precedence and newline rules of the real grammar cannot make the
//! text mean something else than the tree.

use serde::{Deserialize, Serialize};

use super::path::{Seg, SegPath};
use super::value::TV;
use crate::vrlx;

#[derive(Clone, Copy, Debug, PartialEq, Eq, Serialize, Deserialize)]
pub enum BinOp {
    Add,
    Sub,
    Mul,
    Div,
    Eq,
    Ne,
    Lt,
    Le,
    Gt,
    Ge,
    And,
    Or,
    /// `??`
    Err,
    /// `|`
    Merge,
}

impl BinOp {
    pub fn sym(self) -> &'static str {
        match self {
            BinOp::Add => "+",
            BinOp::Sub => "-",
            BinOp::Mul => "*",
            BinOp::Div => "/",
            BinOp::Eq => "==",
            BinOp::Ne => "!=",
            BinOp::Lt => "<",
            BinOp::Le => "<=",
            BinOp::Gt => ">",
            BinOp::Ge => ">=",
            BinOp::And => "&&",
            BinOp::Or => "||",
            BinOp::Err => "??",
            BinOp::Merge => "|",
        }
    }
}

#[derive(Clone, Debug, PartialEq, Serialize, Deserialize)]
pub enum Target {
    Var(String, SegPath),
    Ev(SegPath),
    Meta(SegPath),
    Noop,
}

#[derive(Clone, Debug, PartialEq, Serialize, Deserialize)]
pub enum E {
    Lit(TV),
    Arr(Vec<E>),
    Obj(Vec<(String, E)>),
    Var(String, SegPath),
    Ev(SegPath),
    Meta(SegPath),
    Bin(BinOp, Box<E>, Box<E>),
    Not(Box<E>),
    /// `if p1 { b1 } else if p2 { b2 } ... else { e }`; predicates are statement lists
    If { arms: Vec<(Vec<E>, Vec<E>)>, els: Option<Vec<E>> },
    Block(Vec<E>),
    Assign(Target, Box<E>),
    /// `ok, err = e`
    /// `dflt` is the generator's expectation of the default of ok's type (not printed)
    AssignInf { ok: Target, err: Target, e: Box<E>, dflt: TV },
    Abort(Option<Box<E>>),
    Return(Box<E>),
    Call { f: String, bang: bool, args: Vec<(Option<String>, E)>, closure: Option<(Vec<String>, Vec<E>)> },
    /// `del(<path expr>)` / `exists(<path expr>)`: argument is a path query, not a value
    Del { target: Target, compact: bool },
    Exists(Target),
    /// query on a container literal: `{"a": 1, "b": 2}.a`, `[1, 2][0]`
    Cont(Box<E>, SegPath),
}

pub type Program = Vec<E>;

pub fn is_ident(s: &str) -> bool {
    let mut ch = s.chars();
    matches!(ch.next(), Some(c) if c.is_ascii_lowercase() || c == '_') && ch.all(|c| c.is_ascii_alphanumeric() || c == '_')
}

fn plain_field(s: &str) -> bool {
    // fields that can be written without quotes in a path
    !s.is_empty() && s.chars().all(|c| c.is_ascii_alphanumeric() || c == '_' || c == '@') && !s.chars().next().unwrap().is_ascii_digit()
}

pub fn path_src(p: &[Seg], leading_dot: bool) -> String {
    let mut o = String::new();
    for (i, s) in p.iter().enumerate() {
        match s {
            Seg::F(f) => {
                if i > 0 || leading_dot {
                    o.push('.');
                }
                if plain_field(f) {
                    o.push_str(f);
                } else {
                    o.push_str(&vrlx::str_lit(f));
                }
            }
            Seg::I(n) => {
                o.push_str(&format!("[{n}]"));
            }
        }
    }
    o
}

pub fn target_src(t: &Target) -> String {
    match t {
        Target::Var(v, p) => {
            if p.is_empty() {
                v.clone()
            } else if matches!(p[0], Seg::I(_)) {
                format!("{v}{}", path_src(p, false))
            } else {
                format!("{v}{}", path_src(p, true))
            }
        }
        Target::Ev(p) => {
            if p.is_empty() {
                ".".to_string()
            } else if matches!(p[0], Seg::I(_)) {
                format!(".{}", path_src(p, false))
            } else {
                path_src(p, true)
            }
        }
        Target::Meta(p) => {
            if p.is_empty() {
                "%".to_string()
            } else if matches!(p[0], Seg::I(_)) {
                format!("%{}", path_src(p, false))
            } else {
                format!("%{}", &path_src(p, true)[1..])
            }
        }
        Target::Noop => "_".to_string(),
    }
}

fn block_src(stmts: &[E], ind: usize) -> String {
    let pad = "  ".repeat(ind + 1);
    let mut o = String::from("{\n");
    for s in stmts {
        o.push_str(&pad);
        o.push_str(&expr_src(s, ind + 1));
        o.push('\n');
    }
    o.push_str(&"  ".repeat(ind));
    o.push('}');
    o
}

/// Source of an expression in operand position: statement-like expressions (`if`, assignments,
/// `abort`, `return`) are only accepted by the grammar there when wrapped in a block.
fn sub_src(e: &E, ind: usize) -> String {
    match e {
        E::If { .. } | E::Assign(..) | E::AssignInf { .. } | E::Abort(_) | E::Return(_) => {
            format!("{{ {} }}", expr_src(e, ind))
        }
        _ => expr_src(e, ind),
    }
}

pub fn expr_src(e: &E, ind: usize) -> String {
    match e {
        // regex literals may contain backslashes (`r'\d+'`): printed by the call generator's printer
        E::Lit(v @ TV::Regex(_)) => super::call::lit(v).unwrap_or_else(|| "null".to_string()),
        E::Lit(v) => vrlx::literal(v).unwrap_or_else(|| "null".to_string()),
        E::Arr(items) => format!("[{}]", items.iter().map(|x| sub_src(x, ind)).collect::<Vec<_>>().join(", ")),
        E::Obj(members) => format!(
            "{{{}}}",
            members.iter().map(|(k, x)| format!("{}: {}", vrlx::str_lit(k), sub_src(x, ind))).collect::<Vec<_>>().join(", ")
        ),
        E::Var(v, p) => target_src(&Target::Var(v.clone(), p.clone())),
        E::Ev(p) => target_src(&Target::Ev(p.clone())),
        E::Meta(p) => target_src(&Target::Meta(p.clone())),
        E::Bin(op, a, b) => format!("({} {} {})", sub_src(a, ind), op.sym(), sub_src(b, ind)),
        E::Not(a) => format!("!({})", sub_src(a, ind)),
        E::If { arms, els } => {
            let mut o = String::new();
            for (i, (pred, body)) in arms.iter().enumerate() {
                if i > 0 {
                    o.push_str(" else ");
                }
                o.push_str("if ");
                if pred.len() == 1 {
                    o.push_str(&sub_src(&pred[0], ind));
                } else {
                    o.push('(');
                    o.push_str(&pred.iter().map(|x| expr_src(x, ind)).collect::<Vec<_>>().join("; "));
                    o.push(')');
                }
                o.push(' ');
                o.push_str(&block_src(body, ind));
            }
            if let Some(b) = els {
                o.push_str(" else ");
                o.push_str(&block_src(b, ind));
            }
            o
        }
        E::Block(stmts) => block_src(stmts, ind),
        E::Assign(t, x) => format!("{} = {}", target_src(t), expr_src(x, ind)),
        E::AssignInf { ok, err, e, .. } => format!("{}, {} = {}", target_src(ok), target_src(err), expr_src(e, ind)),
        E::Abort(None) => "abort".to_string(),
        E::Abort(Some(m)) => format!("abort {}", sub_src(m, ind)),
        E::Return(x) => format!("return {}", sub_src(x, ind)),
        E::Call { f, bang, args, closure } => {
            let mut o = format!("{f}{}(", if *bang { "!" } else { "" });
            o.push_str(
                &args
                    .iter()
                    .map(|(k, x)| match k {
                        Some(k) => format!("{k}: {}", sub_src(x, ind)),
                        None => sub_src(x, ind),
                    })
                    .collect::<Vec<_>>()
                    .join(", "),
            );
            o.push(')');
            if let Some((params, body)) = closure {
                o.push_str(&format!(" -> |{}| {}", params.join(", "), block_src(body, ind)));
            }
            o
        }
        E::Del { target, compact } => {
            if *compact {
                format!("del({}, compact: true)", target_src(target))
            } else {
                format!("del({})", target_src(target))
            }
        }
        E::Exists(t) => format!("exists({})", target_src(t)),
        E::Cont(inner, p) => {
            let first_is_index = matches!(p.first(), Some(Seg::I(_)));
            format!("{}{}", expr_src(inner, ind), path_src(p, !first_is_index))
        }
    }
}

pub fn program_src(p: &[E]) -> String {
    let mut o = String::new();
    for s in p {
        o.push_str(&expr_src(s, 0));
        o.push('\n');
    }
    o
}

/// number of AST nodes
pub fn size(e: &E) -> usize {
    1 + match e {
        E::Arr(v) | E::Block(v) => v.iter().map(size).sum(),
        E::Obj(m) => m.iter().map(|(_, x)| size(x)).sum(),
        E::Bin(_, a, b) => size(a) + size(b),
        E::Not(a) | E::Return(a) | E::Assign(_, a) | E::Cont(a, _) => size(a),
        E::AssignInf { e, .. } => size(e),
        E::If { arms, els } => {
            arms.iter().map(|(p, b)| p.iter().map(size).sum::<usize>() + b.iter().map(size).sum::<usize>()).sum::<usize>()
                + els.as_ref().map_or(0, |b| b.iter().map(size).sum())
        }
        E::Abort(m) => m.as_ref().map_or(0, |x| size(x)),
        E::Call { args, closure, .. } => {
            args.iter().map(|(_, x)| size(x)).sum::<usize>() + closure.as_ref().map_or(0, |(_, b)| b.iter().map(size).sum())
        }
        _ => 0,
    }
}

/// visit every node
pub fn walk<'a>(e: &'a E, f: &mut dyn FnMut(&'a E)) {
    f(e);
    match e {
        E::Arr(v) | E::Block(v) => v.iter().for_each(|x| walk(x, f)),
        E::Obj(m) => m.iter().for_each(|(_, x)| walk(x, f)),
        E::Bin(_, a, b) => {
            walk(a, f);
            walk(b, f);
        }
        E::Not(a) | E::Return(a) | E::Assign(_, a) | E::Cont(a, _) => walk(a, f),
        E::AssignInf { e, .. } => walk(e, f),
        E::If { arms, els } => {
            for (p, b) in arms {
                p.iter().for_each(|x| walk(x, f));
                b.iter().for_each(|x| walk(x, f));
            }
            if let Some(b) = els {
                b.iter().for_each(|x| walk(x, f));
            }
        }
        E::Abort(Some(m)) => walk(m, f),
        E::Call { args, closure, .. } => {
            args.iter().for_each(|(_, x)| walk(x, f));
            if let Some((_, b)) = closure {
                b.iter().for_each(|x| walk(x, f));
            }
        }
        _ => {}
    }
}

/// rewrite every node in place (children first)
pub fn rewrite(e: &mut E, f: &mut dyn FnMut(&mut E)) {
    match e {
        E::Arr(v) | E::Block(v) => v.iter_mut().for_each(|x| rewrite(x, f)),
        E::Obj(m) => m.iter_mut().for_each(|(_, x)| rewrite(x, f)),
        E::Bin(_, a, b) => {
            rewrite(a, f);
            rewrite(b, f);
        }
        E::Not(a) | E::Return(a) | E::Assign(_, a) | E::Cont(a, _) => rewrite(a, f),
        E::AssignInf { e, .. } => rewrite(e, f),
        E::If { arms, els } => {
            for (p, b) in arms {
                p.iter_mut().for_each(|x| rewrite(x, f));
                b.iter_mut().for_each(|x| rewrite(x, f));
            }
            if let Some(b) = els {
                b.iter_mut().for_each(|x| rewrite(x, f));
            }
        }
        E::Abort(Some(m)) => rewrite(m, f),
        E::Call { args, closure, .. } => {
            args.iter_mut().for_each(|(_, x)| rewrite(x, f));
            if let Some((_, b)) = closure {
                b.iter_mut().for_each(|x| rewrite(x, f));
            }
        }
        _ => {}
    }
    f(e);
}

pub fn any_node(p: &[E], pred: &dyn Fn(&E) -> bool) -> bool {
    let mut found = false;
    for s in p {
        walk(s, &mut |x| {
            if pred(x) {
                found = true;
            }
        });
    }
    found
}
