//! Programs built from the stdlib functions' own `examples()`.
//!
//! Every deterministic stdlib function contributes its example sources as ready-made programs.
//! Where the first argument of the documented call is a constant (string, object, array, number,
//! timestamp), the example is turned into a *template*: the argument is replaced by a typed read
//! of the event field `.msg` (`string!(.msg)`, `object!(.msg)`, ...), so that one compiled program
//! can be fed the original input and mutations of it. A template is kept only if it compiles and
//! reproduces the example's own outcome on the original input; otherwise the unmodified example is
//! used (with its documented input event, if any).
//!
//! Used by C14 (determinism / thread-safety): the functions that hold caches, pools or heavy regex
//! machinery are marked `heavy` and get extra weight there.

use std::collections::BTreeMap;
use std::sync::OnceLock;

use proptest::prelude::*;
use vrl::value::Value;

use super::value::TV;
use crate::vrlx;

/// functions the property statement names as explicitly nondeterministic (plus their relatives:
/// anything that reads the clock, the environment, the host or the network)
pub const EXEMPT: &[&str] = &[
    "now",
    "random_bool",
    "random_bytes",
    "random_float",
    "random_int",
    "uuid_v4",
    "uuid_v7",
    "get_hostname",
    "get_env_var",
    "get_timezone_name",
    "dns_lookup",
    "reverse_dns",
    "http_request",
];

#[derive(Clone, Debug)]
pub struct Template {
    pub func: String,
    pub heavy: bool,
    /// program source; reads `.msg` when `input` is `Some`
    pub src: String,
    /// event the example documents (`{}` when none)
    pub base_event: TV,
    /// original value of the replaced argument
    pub input: Option<TV>,
}

fn is_heavy(name: &str) -> bool {
    const PREFIXES: &[&str] = &["parse_", "encode_", "decode_", "match", "replace", "format_timestamp", "redact", "find", "split", "sieve", "to_regex"];
    PREFIXES.iter().any(|p| name.starts_with(p))
}

fn is_ident_byte(b: u8) -> bool {
    b.is_ascii_alphanumeric() || b == b'_'
}

/// mentions of exempt functions anywhere in an example source
fn mentions_exempt(src: &str) -> bool {
    let b = src.as_bytes();
    EXEMPT.iter().any(|name| {
        let mut from = 0;
        while let Some(i) = src[from..].find(name) {
            let s = from + i;
            let e = s + name.len();
            let before_ok = s == 0 || !is_ident_byte(b[s - 1]);
            let after_ok = e >= b.len() || !is_ident_byte(b[e]);
            if before_ok && after_ok {
                return true;
            }
            from = e;
        }
        false
    })
}

/// Byte span of the first argument of the first call of `ident` in `src` (named-argument prefix
/// stripped). A small scanner that understands string / raw-string literals, comments and brackets.
pub fn first_arg_span(src: &str, ident: &str) -> Option<(usize, usize)> {
    let b = src.as_bytes();
    let mut from = 0;
    let open = loop {
        let i = src[from..].find(ident)? + from;
        let e = i + ident.len();
        let before_ok = i == 0 || !(is_ident_byte(b[i - 1]) || b[i - 1] == b'.');
        let mut j = e;
        if j < b.len() && b[j] == b'!' {
            j += 1;
        }
        if before_ok && j < b.len() && b[j] == b'(' {
            break j;
        }
        from = e;
    };
    let start = open + 1;
    let mut i = start;
    let mut depth = 0usize;
    let end = loop {
        if i >= b.len() {
            return None;
        }
        let c = b[i];
        match c {
            b'"' => {
                i += 1;
                while i < b.len() && b[i] != b'"' {
                    if b[i] == b'\\' {
                        i += 1;
                    }
                    i += 1;
                }
            }
            b'\'' if i > 0 && matches!(b[i - 1], b's' | b'r' | b't') && (i < 2 || !is_ident_byte(b[i - 2])) => {
                i += 1;
                while i < b.len() && b[i] != b'\'' {
                    if b[i] == b'\\' {
                        i += 1;
                    }
                    i += 1;
                }
            }
            b'#' => {
                while i < b.len() && b[i] != b'\n' {
                    i += 1;
                }
            }
            b'(' | b'[' | b'{' => depth += 1,
            b')' | b']' | b'}' => {
                if depth == 0 {
                    if c == b')' {
                        break i;
                    }
                    return None;
                }
                depth -= 1;
            }
            b',' if depth == 0 => break i,
            _ => {}
        }
        i += 1;
    };
    // trim and strip `name:`
    let mut s = start;
    let mut e = end;
    while s < e && b[s].is_ascii_whitespace() {
        s += 1;
    }
    while e > s && b[e - 1].is_ascii_whitespace() {
        e -= 1;
    }
    let mut k = s;
    while k < e && (b[k].is_ascii_lowercase() || b[k] == b'_') {
        k += 1;
    }
    if k > s && k < e && b[k] == b':' {
        let mut n = k + 1;
        while n < e && b[n].is_ascii_whitespace() {
            n += 1;
        }
        s = n;
    }
    if s >= e {
        return None;
    }
    Some((s, e))
}

fn wrapper_for(v: &Value) -> Option<&'static str> {
    Some(match v {
        Value::Bytes(b) if std::str::from_utf8(b).is_ok() => "string!(.msg)",
        Value::Object(_) => "object!(.msg)",
        Value::Array(_) => "array!(.msg)",
        Value::Integer(_) => "int!(.msg)",
        Value::Float(_) => "float!(.msg)",
        Value::Boolean(_) => "bool!(.msg)",
        Value::Timestamp(_) => "timestamp!(.msg)",
        _ => return None,
    })
}

fn run_once(src: &str, event: &Value) -> Option<(String, Value)> {
    let res = vrlx::compile(src).ok()?;
    let out = vrlx::run(&res.program, event.clone(), vrlx::empty_object());
    Some((format!("{:?}", out.end), out.event))
}

fn with_msg(base: &Value, msg: Value) -> Value {
    let mut m = match base {
        Value::Object(o) => o.clone(),
        _ => BTreeMap::new(),
    };
    m.insert("msg".into(), msg);
    Value::Object(m)
}

fn build_templates() -> Vec<Template> {
    let mut out = Vec::new();
    for f in vrlx::fns() {
        let name = f.identifier();
        if EXEMPT.contains(&name) {
            continue;
        }
        for ex in f.examples() {
            if ex.skip || mentions_exempt(ex.source) {
                continue;
            }
            // some examples need files relative to the vrl checkout (parse_proto / encode_proto
            // descriptors) and panic at compile time elsewhere: leave those out
            let r = std::panic::catch_unwind(|| one_example(name, ex));
            if let Ok(Some(t)) = r {
                out.push(t);
            }
        }
    }
    out
}

fn one_example(name: &str, ex: &vrl::compiler::function::Example) -> Option<Template> {
    {
        {
            let base: Value = match ex.input {
                Some(json) => match serde_json::from_str::<serde_json::Value>(json) {
                    Ok(j) => Value::from(j),
                    Err(_) => return None,
                },
                None => vrlx::empty_object(),
            };
            if !matches!(base, Value::Object(_)) {
                return None;
            }
            // the example itself must be an accepted program
            let orig = run_once(ex.source, &base)?;
            let plain = Template { func: name.to_string(), heavy: is_heavy(name), src: ex.source.to_string(), base_event: TV::from_value(&base), input: None };
            let templ = (|| {
                let (s, e) = first_arg_span(ex.source, name)?;
                let arg = &ex.source[s..e];
                if arg.contains(".msg") {
                    return None;
                }
                let argres = vrlx::compile(arg).ok()?;
                let argout = vrlx::run(&argres.program, base.clone(), vrlx::empty_object());
                let v = argout.end.value()?.clone();
                if argout.event != base {
                    return None;
                }
                let w = wrapper_for(&v)?;
                let src = format!("{}{}{}", &ex.source[..s], w, &ex.source[e..]);
                let ev = with_msg(&base, v.clone());
                let (end2, ev2) = run_once(&src, &ev)?;
                // same outcome, and the event is untouched or changed exactly as in the original
                let expect_ev = with_msg(&orig.1, v.clone());
                if end2 != orig.0 || ev2 != expect_ev {
                    return None;
                }
                Some(Template { func: name.to_string(), heavy: is_heavy(name), src, base_event: TV::from_value(&base), input: Some(TV::from_value(&v)) })
            })();
            Some(templ.unwrap_or(plain))
        }
    }
}

pub fn templates() -> &'static [Template] {
    static T: OnceLock<Vec<Template>> = OnceLock::new();
    T.get_or_init(build_templates)
}

/// all inputs of one function's templates (a pool for cross-over mutations)
fn pool_of(func: &str) -> Vec<TV> {
    templates().iter().filter(|t| t.func == func).filter_map(|t| t.input.clone()).collect()
}

fn mutate_str(s: &str, op: u8, a: usize, other: &str) -> String {
    let chars: Vec<char> = s.chars().collect();
    let n = chars.len();
    let at = if n == 0 { 0 } else { a % (n + 1) };
    match op % 12 {
        0 | 1 | 2 => s.to_string(),
        3 => chars[..at].iter().collect(),
        4 => chars[at.min(n)..].iter().collect(),
        5 => {
            let mut c = chars.clone();
            if n > 0 {
                c.remove(at.min(n - 1));
            }
            c.into_iter().collect()
        }
        6 => format!("{s}{s}"),
        7 => format!("{s} {other}"),
        8 => chars.iter().map(|c| if c.is_ascii_digit() { char::from(b'0' + ((*c as u8 - b'0' + 1 + (a % 9) as u8) % 10)) } else { *c }).collect(),
        9 => s.to_uppercase(),
        10 => String::new(),
        _ => {
            let mut c = chars.clone();
            c.insert(at, ['\n', ' ', '"', '=', '%', 'é', '0', '\\'][a % 8]);
            c.into_iter().collect()
        }
    }
}

fn mutate(v: &TV, op: u8, a: usize, pool: &[TV]) -> TV {
    let other = pool.get(a % pool.len().max(1));
    match v {
        TV::Str(s) => {
            let o = match other {
                Some(TV::Str(o)) => o.as_str(),
                _ => "",
            };
            TV::Str(mutate_str(s, op, a, o))
        }
        TV::Object(m) => {
            let mut m = m.clone();
            let keys: Vec<String> = m.keys().cloned().collect();
            match op % 6 {
                0 | 1 => {}
                2 if !keys.is_empty() => {
                    m.remove(&keys[a % keys.len()]);
                }
                3 if !keys.is_empty() => {
                    let k = &keys[a % keys.len()];
                    let nv = mutate(&m[k], (a % 251) as u8, a / 3, &[]);
                    m.insert(k.clone(), nv);
                }
                4 => {
                    if let Some(TV::Object(o)) = other {
                        return TV::Object(o.clone());
                    }
                }
                _ => {
                    m.insert("extra".into(), TV::Int(a as i64));
                }
            }
            TV::Object(m)
        }
        TV::Array(xs) => {
            let mut xs = xs.clone();
            match op % 5 {
                0 | 1 => {}
                2 if !xs.is_empty() => {
                    xs.remove(a % xs.len());
                }
                3 => xs.reverse(),
                _ => {
                    if let Some(TV::Array(o)) = other {
                        xs.extend(o.iter().cloned());
                    }
                }
            }
            TV::Array(xs)
        }
        TV::Int(i) => match op % 4 {
            0 | 1 => TV::Int(*i),
            2 => TV::Int(i.wrapping_add(1 + (a % 100) as i64)),
            _ => TV::Int(i.wrapping_neg()),
        },
        other => other.clone(),
    }
}

#[derive(Clone, Debug)]
pub struct FnProgram {
    pub func: String,
    pub heavy: bool,
    pub varying: bool,
    pub src: String,
    pub events: Vec<TV>,
}

/// A template plus `n_events` events (the original input and mutations of it). `heavy_weight`
/// out of 4 picks go to the cache / pool / regex-heavy functions.
pub fn strategy(max_events: usize, leave_out: fn(&Template) -> bool) -> impl Strategy<Value = FnProgram> {
    let all = templates();
    let heavy: Vec<usize> = (0..all.len()).filter(|i| all[*i].heavy && !leave_out(&all[*i])).collect();
    let light: Vec<usize> = (0..all.len()).filter(|i| !all[*i].heavy && !leave_out(&all[*i])).collect();
    let pick = prop_oneof![
        3 => proptest::sample::select(heavy),
        1 => proptest::sample::select(light),
    ];
    (pick, proptest::collection::vec((any::<u8>(), any::<u16>()), 1..=max_events)).prop_map(move |(ti, muts)| {
        let t = &all[ti];
        let pool = pool_of(&t.func);
        let base = match &t.base_event {
            TV::Object(m) => m.clone(),
            _ => BTreeMap::new(),
        };
        let events = muts
            .iter()
            .enumerate()
            .map(|(k, (op, a))| {
                let mut m = base.clone();
                if let Some(inp) = &t.input {
                    // the first event is always the documented input itself
                    let v = if k == 0 { inp.clone() } else { mutate(inp, *op, *a as usize, &pool) };
                    m.insert("msg".into(), v);
                } else if k > 0 && op % 3 == 0 {
                    m.insert("extra".into(), TV::Int(*a as i64));
                }
                TV::Object(m)
            })
            .collect();
        FnProgram { func: t.func.clone(), heavy: t.heavy, varying: t.input.is_some(), src: t.src.clone(), events }
    })
}
