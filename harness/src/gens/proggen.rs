//! Type-directed generator of VRL programs (as harness AST) from a byte stream.
//!
//! The stream comes from proptest (`vec(any::<u8>())`), so shrinking the bytes shrinks the
//! program. Every generated sub-expression carries the generator's own *estimate* of its type and
//! fallibility, used only to make choices the compiler will probably accept; the compiler is the
//! final filter (acceptance rates are reported in evidence).

use std::collections::BTreeMap;

use proptest::prelude::*;
use serde::{Deserialize, Serialize};

use super::path::Seg;
use super::prog::{BinOp, Target, E};
use super::value::TV;

#[derive(Clone, Copy, Debug, PartialEq, Eq)]
pub enum Ty {
    Int,
    Float,
    Str,
    Bool,
    Null,
    Arr,
    Obj,
    Any,
}

/// weights and switches that steer the generator per property
#[derive(Clone, Copy, Debug)]
pub struct Preset {
    pub returns: u8,
    pub aborts: u8,
    pub coalesce: u8,
    pub infallible_assign: u8,
    pub closures: u8,
    pub short_circuit: u8,
    pub dels: u8,
    pub metadata: bool,
    /// `f!(..)` calls allowed
    pub bang: bool,
    /// closure bodies may fail / return
    pub failing_closures: bool,
    /// closure parameters reuse names of outer variables
    pub shadowing: bool,
    pub max_stmts: usize,
    /// known finding switches (true = leave the class out)
    pub no_del_on_variable_paths: bool,
    pub no_effects_in_call_args: bool,
    pub no_closure_outer_assign: bool,
    /// leave out the program shapes that run into the open kind-level findings of C19 (arrays
    /// whose known indices may be missing, negative indices in assignments)
    pub avoid_kind_findings: bool,
}

pub const BASE: Preset = Preset {
    returns: 0,
    aborts: 0,
    coalesce: 3,
    infallible_assign: 2,
    closures: 2,
    short_circuit: 3,
    dels: 2,
    metadata: true,
    bang: false,
    failing_closures: true,
    shadowing: false,
    max_stmts: 8,
    no_del_on_variable_paths: false,
    no_effects_in_call_args: false,
    no_closure_outer_assign: false,
    avoid_kind_findings: false,
};

#[derive(Clone, Debug, Serialize, Deserialize)]
pub struct ProgCase {
    pub prog: Vec<E>,
    pub event: TV,
    pub meta: TV,
}

struct Cur<'a> {
    b: &'a [u8],
    i: usize,
}

impl Cur<'_> {
    fn byte(&mut self) -> u8 {
        let v = self.b.get(self.i).copied().unwrap_or(0);
        self.i += 1;
        v
    }
    fn below(&mut self, n: usize) -> usize {
        if n <= 1 {
            return 0;
        }
        (self.byte() as usize * n) >> 8
    }
    fn chance(&mut self, num: u8, den: u8) -> bool {
        (self.byte() % den) < num
    }
    fn exhausted(&self) -> bool {
        self.i >= self.b.len()
    }
}

const VAR_NAMES: &[&str] = &["x", "y", "z", "w", "n", "s", "acc", "tmp"];
const PARAM_NAMES: &[&str] = &["k", "v", "i", "item", "key"];
const FIELDS: &[&str] = &["a", "b", "c", "d", "n", "s", "arr", "obj", "flag"];
const INT_LITS: &[i64] = &[0, 1, 2, 3, -1, 7, 10, 42, 100, -5, 9_007_199_254_740_993, i64::MAX];
const STR_LITS: &[&str] = &["", "a", "foo", "Bar", "x y", "12", "é", "true"];

struct B<'a> {
    c: Cur<'a>,
    p: Preset,
    /// lexical scopes: variable name -> estimated type
    scopes: Vec<BTreeMap<String, Ty>>,
    /// >0: generate only pure, infallible expressions
    pure: usize,
    in_closure: usize,
    trace_n: i64,
}

impl<'a> B<'a> {
    fn visible(&self) -> Vec<(String, Ty)> {
        let mut m: BTreeMap<String, Ty> = BTreeMap::new();
        for s in &self.scopes {
            for (k, v) in s {
                m.insert(k.clone(), *v);
            }
        }
        m.into_iter().collect()
    }

    fn vars_of(&self, ty: Ty) -> Vec<String> {
        self.visible().into_iter().filter(|(_, t)| *t == ty || ty == Ty::Any).map(|(k, _)| k).collect()
    }

    fn define(&mut self, name: &str, ty: Ty) {
        // an assignment to a variable that is visible keeps living in the scope that owns it
        for s in self.scopes.iter_mut().rev() {
            if s.contains_key(name) {
                s.insert(name.to_string(), ty);
                return;
            }
        }
        self.scopes.last_mut().unwrap().insert(name.to_string(), ty);
    }

    fn ev_path(&mut self) -> Vec<Seg> {
        let f = FIELDS[self.c.below(FIELDS.len())];
        let mut p = vec![Seg::F(f.to_string())];
        match self.c.below(8) {
            0 => p.push(Seg::F(FIELDS[self.c.below(4)].to_string())),
            1 => p.push(Seg::I(self.c.below(3) as i64)),
            2 if !self.p.avoid_kind_findings => p.push(Seg::I(-1 - self.c.below(2) as i64)),
            _ => {}
        }
        p
    }

    fn lit(&mut self, ty: Ty) -> E {
        E::Lit(match ty {
            Ty::Int => TV::Int(INT_LITS[self.c.below(INT_LITS.len())]),
            Ty::Float => TV::float([0.0, 1.5, -2.25, 100.0, 0.1][self.c.below(5)]),
            Ty::Str => TV::Str(STR_LITS[self.c.below(STR_LITS.len())].to_string()),
            Ty::Bool => TV::Bool(self.c.chance(1, 2)),
            Ty::Null | Ty::Any => TV::Null,
            Ty::Arr => return E::Arr(vec![]),
            Ty::Obj => return E::Obj(vec![]),
        })
    }

    fn any_ty(&mut self) -> Ty {
        [Ty::Int, Ty::Str, Ty::Bool, Ty::Float, Ty::Int, Ty::Str, Ty::Arr, Ty::Obj, Ty::Null][self.c.below(9)]
    }

    fn default_of(&mut self, ty: Ty) -> E {
        self.lit(ty)
    }

    /// an expression that can fail at runtime and has type `ty` when it succeeds
    fn fallible(&mut self, ty: Ty, d: usize) -> E {
        let src = if self.c.chance(3, 4) { E::Ev(self.ev_path()) } else { self.arg(Ty::Any, d.saturating_sub(1)) };
        let call = |f: &str, a: E| E::Call { f: f.to_string(), bang: false, args: vec![(None, a)], closure: None };
        match ty {
            Ty::Int => match self.c.below(3) {
                0 => call("int", src),
                _ => call("to_int", src),
            },
            Ty::Float => match self.c.below(3) {
                0 => call("float", src),
                1 => E::Bin(BinOp::Div, Box::new(self.expr(Ty::Int, d.saturating_sub(1))), Box::new(E::Ev(self.ev_path()))),
                _ => call("to_float", src),
            },
            Ty::Str => match self.c.below(3) {
                0 => call("upcase", src),
                _ => call("string", src),
            },
            Ty::Bool => match self.c.below(2) {
                0 => call("bool", src),
                _ => call("to_bool", src),
            },
            Ty::Arr => call("array", src),
            // results typed as objects with known (required) fields exercise the default `{}`
            Ty::Obj => match self.c.below(4) {
                0 => call("parse_url", src),
                1 => E::Call {
                    f: "parse_regex".to_string(),
                    bang: false,
                    args: vec![(None, src), (None, E::Lit(TV::Regex("(?P<num>[0-9]+)(?P<rest>.*)".to_string())))],
                    closure: None,
                },
                _ => call("object", src),
            },
            Ty::Null | Ty::Any => {
                if self.c.chance(1, 2) {
                    call("parse_json", E::Ev(self.ev_path()))
                } else {
                    E::Bin(BinOp::Add, Box::new(E::Ev(self.ev_path())), Box::new(E::Ev(self.ev_path())))
                }
            }
        }
    }

    /// infallible expression of (estimated) type `ty`
    fn expr(&mut self, ty: Ty, d: usize) -> E {
        if ty == Ty::Any {
            return match self.c.below(6) {
                0 | 1 | 2 => E::Ev(self.ev_path()),
                3 if self.p.metadata => E::Meta(vec![Seg::F(["m", "tag"][self.c.below(2)].to_string())]),
                _ => {
                    let t = self.any_ty();
                    self.expr(t, d)
                }
            };
        }
        if d == 0 || self.c.exhausted() {
            let vars = self.vars_of(ty);
            if !vars.is_empty() && self.c.chance(1, 2) {
                return E::Var(vars[self.c.below(vars.len())].clone(), vec![]);
            }
            return self.lit(ty);
        }
        let d1 = d - 1;
        let choice = self.c.below(12);
        // handled-fallible forms, available for every type
        if self.pure == 0 && choice == 0 && self.p.coalesce > 0 {
            let f = self.fallible(ty, d1);
            let dflt = if self.c.chance(1, 3) { self.expr(ty, d1) } else { self.default_of(ty) };
            return E::Bin(BinOp::Err, Box::new(f), Box::new(dflt));
        }
        if choice == 1 && !(self.p.avoid_kind_findings && ty == Ty::Arr) {
            // conditional
            let p = self.expr(Ty::Bool, d1);
            let a = self.branch_block(ty, d1);
            let b = self.branch_block(ty, d1);
            return E::If { arms: vec![(vec![p], a)], els: Some(b) };
        }
        if choice == 2 && self.pure == 0 {
            // block with a statement in front
            self.scopes.push(BTreeMap::new());
            let st = self.stmt(d1);
            let v = self.expr(ty, d1);
            self.scopes.pop();
            return E::Block(vec![st, v]);
        }
        if choice == 4 && self.c.chance(1, 2) {
            // query on a container literal: every member is evaluated, one is selected
            self.pure += 1;
            let wanted = self.expr(ty, d1);
            self.pure -= 1;
            let t2 = self.any_ty();
            let other = self.effectful_operand(t2, d1);
            return if self.c.chance(2, 3) {
                E::Cont(Box::new(E::Obj(vec![("a".to_string(), wanted), ("b".to_string(), other)])), vec![Seg::F("a".to_string())])
            } else {
                // arrays are evaluated left to right
                E::Cont(Box::new(E::Arr(vec![other, wanted])), vec![Seg::I(1)])
            };
        }
        if choice == 3 {
            let vars = self.vars_of(ty);
            if !vars.is_empty() {
                return E::Var(vars[self.c.below(vars.len())].clone(), vec![]);
            }
        }
        let call1 = |f: &str, a: E| E::Call { f: f.to_string(), bang: false, args: vec![(None, a)], closure: None };
        match ty {
            Ty::Int => match self.c.below(6) {
                0 | 1 => {
                    let op = [BinOp::Add, BinOp::Sub, BinOp::Mul][self.c.below(3)];
                    E::Bin(op, Box::new(self.expr(Ty::Int, d1)), Box::new(self.expr(Ty::Int, d1)))
                }
                2 => {
                    let t = [Ty::Str, Ty::Arr, Ty::Obj][self.c.below(3)];
                    call1("length", self.arg(t, d1))
                }
                3 => call1("strlen", self.arg(Ty::Str, d1)),
                // the left operand reads an any-typed location that the right operand then narrows
                // to an integer: the operation can fail (the left operand is read first), so the
                // compiler must not accept it unhandled
                5 if self.pure == 0 && self.c.chance(1, 3) => {
                    // no `*`: a string left operand times a large integer is an allocation request
                    let op = [BinOp::Add, BinOp::Sub][self.c.below(2)];
                    let anys = self.vars_of(Ty::Any);
                    if !anys.is_empty() && self.c.chance(1, 2) {
                        let v = anys[self.c.below(anys.len())].clone();
                        E::Bin(op, Box::new(E::Var(v.clone(), vec![])), Box::new(E::Assign(Target::Var(v, vec![]), Box::new(self.lit(Ty::Int)))))
                    } else {
                        let p = self.ev_path();
                        E::Bin(op, Box::new(E::Ev(p.clone())), Box::new(E::Assign(Target::Ev(p), Box::new(self.lit(Ty::Int)))))
                    }
                }
                _ => self.lit(Ty::Int),
            },
            Ty::Float => match self.c.below(5) {
                // the dividend reassigns the (possibly constant, non-zero) divisor variable to 0
                // before the divisor is read: the division can fail and must not be accepted unhandled
                4 if self.pure == 0 && !self.vars_of(Ty::Int).is_empty() => {
                    let ints = self.vars_of(Ty::Int);
                    let v = ints[self.c.below(ints.len())].clone();
                    let zero = if self.c.chance(2, 3) { E::Lit(TV::Int(0)) } else { self.lit(Ty::Int) };
                    let dividend = E::Block(vec![E::Assign(Target::Var(v.clone(), vec![]), Box::new(zero)), self.lit(Ty::Int)]);
                    E::Bin(BinOp::Div, Box::new(dividend), Box::new(E::Var(v, vec![])))
                }
                0 => E::Bin(BinOp::Add, Box::new(self.expr(Ty::Float, d1)), Box::new(self.expr(Ty::Int, d1))),
                1 => E::Bin(BinOp::Div, Box::new(self.expr(Ty::Int, d1)), Box::new(E::Lit(TV::Int(2)))),
                2 => call1("to_float", self.arg(Ty::Int, d1)),
                _ => self.lit(Ty::Float),
            },
            Ty::Str => match self.c.below(7) {
                6 if self.p.closures > 0 && self.pure == 0 => self.replace_with_call(d1),
                0 => E::Bin(BinOp::Add, Box::new(self.expr(Ty::Str, d1)), Box::new(self.expr(Ty::Str, d1))),
                1 => call1("upcase", self.arg(Ty::Str, d1)),
                2 => call1("downcase", self.arg(Ty::Str, d1)),
                3 => {
                    let t = [Ty::Int, Ty::Bool, Ty::Str, Ty::Float][self.c.below(4)];
                    call1("to_string", self.arg(t, d1))
                }
                _ => self.lit(Ty::Str),
            },
            Ty::Bool => match self.c.below(10) {
                0 | 1 => {
                    let op = [BinOp::Eq, BinOp::Ne][self.c.below(2)];
                    E::Bin(op, Box::new(self.expr(Ty::Any, d1)), Box::new(self.expr(Ty::Any, d1)))
                }
                2 => {
                    let op = [BinOp::Lt, BinOp::Le, BinOp::Gt, BinOp::Ge][self.c.below(4)];
                    E::Bin(op, Box::new(self.expr(Ty::Int, d1)), Box::new(self.expr(Ty::Int, d1)))
                }
                3 if self.p.short_circuit > 0 => {
                    let op = [BinOp::And, BinOp::Or][self.c.below(2)];
                    let b = self.effectful_operand(Ty::Bool, d1);
                    match self.c.below(4) {
                        // a left operand that may be null at runtime (any-typed: the operation is
                        // fallible and handled)
                        0 if self.pure == 0 => E::Bin(
                            BinOp::Err,
                            Box::new(E::Bin(op, Box::new(E::Ev(self.ev_path())), Box::new(b))),
                            Box::new(self.lit(Ty::Bool)),
                        ),
                        // a left operand that is the null literal: `null && b` is false, `null || b` is b
                        1 => E::Bin(op, Box::new(E::Lit(TV::Null)), Box::new(b)),
                        _ => {
                            let a = self.expr(Ty::Bool, d1);
                            E::Bin(op, Box::new(a), Box::new(b))
                        }
                    }
                }
                4 => E::Not(Box::new(self.expr(Ty::Bool, d1))),
                5 => E::Exists(Target::Ev(self.ev_path())),
                6 => {
                    let f = ["is_string", "is_integer", "is_null", "is_array", "is_object", "is_boolean"][self.c.below(6)];
                    call1(f, self.arg(Ty::Any, d1))
                }
                7 => E::Bin(BinOp::Eq, Box::new(E::Ev(vec![Seg::F("flag".into())])), Box::new(E::Lit(TV::Bool(true)))),
                // an ordering comparison between independently chosen scalar kinds, unhandled: the
                // compiler must reject the mixes that can fail at runtime (string against
                // timestamp, number against string, ...); same-kind pairs are accepted
                8 if self.c.chance(1, 3) => {
                    let op = [BinOp::Lt, BinOp::Le, BinOp::Gt, BinOp::Ge][self.c.below(4)];
                    let mut side = |s: &mut Self| -> E {
                        match s.c.below(4) {
                            0 => s.expr(Ty::Int, d1),
                            1 => s.expr(Ty::Str, d1),
                            2 => E::Lit(TV::Ts { s: [0i64, 1_600_000_000, 951_782_400][s.c.below(3)], n: 0 }),
                            _ => s.expr(Ty::Float, d1),
                        }
                    };
                    let a = side(self);
                    let b = side(self);
                    E::Bin(op, Box::new(a), Box::new(b))
                }
                _ => self.lit(Ty::Bool),
            },
            Ty::Null => E::Lit(TV::Null),
            Ty::Arr => match self.c.below(6) {
                // `zip` keeps its arguments as constant-or-expression: a block that only returns
                // a constant must still end the program (or closure iteration)
                5 if !(self.p.avoid_kind_findings) => {
                    let lit_arr = |s: &mut Self| {
                        let n = 1 + s.c.below(2);
                        E::Arr((0..n).map(|_| { let t = [Ty::Int, Ty::Str, Ty::Bool][s.c.below(3)]; s.lit(t) }).collect())
                    };
                    let first = if self.p.returns > 0 && self.pure == 0 && self.c.chance(1, 2) {
                        E::Block(vec![E::Return(Box::new(lit_arr(self)))])
                    } else {
                        lit_arr(self)
                    };
                    let second = lit_arr(self);
                    E::Call { f: "zip".into(), bang: false, args: vec![(None, first), (None, second)], closure: None }
                }
                0 => E::Call {
                    f: "push".into(),
                    bang: false,
                    args: vec![(None, self.arg(Ty::Arr, d1)), (None, self.pure_expr_any(d1))],
                    closure: None,
                },
                1 | 2 => {
                    let n = self.c.below(4);
                    let effect_at = self.c.below(n.max(1));
                    let mut items = Vec::new();
                    for i in 0..n {
                        let t = self.any_ty();
                        // array literals are evaluated left to right: effects are fine anywhere
                        items.push(if i == effect_at && self.pure == 0 && self.c.chance(1, 3) { self.effectful_operand(t, d1) } else { self.expr(t, d1) });
                    }
                    E::Arr(items)
                }
                3 if self.p.closures > 0 && self.pure == 0 => self.closure_call(Ty::Arr, d1),
                _ => E::Arr(vec![self.lit(Ty::Int), self.lit(Ty::Str)]),
            },
            Ty::Obj => match self.c.below(5) {
                0 => E::Bin(BinOp::Merge, Box::new(self.expr(Ty::Obj, d1)), Box::new(self.expr(Ty::Obj, d1))),
                1 | 2 => {
                    let n = self.c.below(4);
                    let impure_at = self.c.below(n.max(1));
                    let mut members: Vec<(String, E)> = Vec::new();
                    for i in 0..n {
                        let k = FIELDS[self.c.below(6)].to_string();
                        if members.iter().any(|(kk, _)| *kk == k) {
                            continue;
                        }
                        let t = self.any_ty();
                        // object members are evaluated in key order, not source order: at most one
                        // member may have effects
                        let v = if i == impure_at && self.pure == 0 && self.c.chance(1, 4) {
                            self.effectful_operand(t, d1)
                        } else {
                            self.pure += 1;
                            let v = self.expr(t, d1);
                            self.pure -= 1;
                            v
                        };
                        members.push((k, v));
                    }
                    E::Obj(members)
                }
                3 if self.p.closures > 0 && self.pure == 0 => self.closure_call(Ty::Obj, d1),
                _ => E::Obj(vec![("a".into(), self.lit(Ty::Int))]),
            },
            Ty::Any => unreachable!(),
        }
    }

    /// a call argument: pure when the preset forbids effects inside arguments
    fn arg(&mut self, ty: Ty, d: usize) -> E {
        if self.p.no_effects_in_call_args {
            self.pure += 1;
            let e = self.expr(ty, d);
            self.pure -= 1;
            e
        } else {
            self.expr(ty, d)
        }
    }

    fn pure_expr_any(&mut self, d: usize) -> E {
        self.pure += 1;
        let t = self.any_ty();
        let e = self.expr(t, d);
        self.pure -= 1;
        e
    }

    fn branch_block(&mut self, ty: Ty, d: usize) -> Vec<E> {
        self.scopes.push(BTreeMap::new());
        let mut out = Vec::new();
        if self.pure == 0 && self.c.chance(1, 2) {
            out.push(self.stmt(d));
        }
        out.push(self.expr(ty, d));
        self.scopes.pop();
        out
    }

    /// an operand that (often) has an observable side effect: used for short-circuit operands,
    /// array elements and the single impure member of objects/calls
    fn effectful_operand(&mut self, ty: Ty, d: usize) -> E {
        if self.pure > 0 {
            return self.expr(ty, d);
        }
        self.scopes.push(BTreeMap::new());
        let st = self.effect_stmt(d);
        let v = self.expr(ty, d);
        self.scopes.pop();
        E::Block(vec![st, v])
    }

    fn trace_stmt(&mut self) -> E {
        // `.t = push(array(.t) ?? [], n)`: an exact evaluation trace in the event
        self.trace_n += 1;
        let cur = E::Bin(
            BinOp::Err,
            Box::new(E::Call { f: "array".into(), bang: false, args: vec![(None, E::Ev(vec![Seg::F("t".into())]))], closure: None }),
            Box::new(E::Arr(vec![])),
        );
        E::Assign(
            Target::Ev(vec![Seg::F("t".into())]),
            Box::new(E::Call { f: "push".into(), bang: false, args: vec![(None, cur), (None, E::Lit(TV::Int(self.trace_n)))], closure: None }),
        )
    }

    fn effect_stmt(&mut self, d: usize) -> E {
        match self.c.below(6) {
            0 | 1 => self.trace_stmt(),
            2 => {
                let t = self.any_ty();
                let v = self.expr(t, d.saturating_sub(1));
                E::Assign(Target::Ev(self.ev_path()), Box::new(v))
            }
            3 if self.p.dels > 0 => E::Del { target: Target::Ev(self.ev_path()), compact: self.c.chance(1, 4) },
            4 => self.jump_stmt(d),
            _ => self.assign_var(d),
        }
    }

    fn assign_var(&mut self, d: usize) -> E {
        let t = self.any_ty();
        let vis = self.visible();
        // reuse a visible variable of the same type or make a new one
        let same: Vec<&String> = vis.iter().filter(|(_, ty)| *ty == t).map(|(k, _)| k).collect();
        let name = if !same.is_empty() && self.c.chance(1, 2) {
            same[self.c.below(same.len())].clone()
        } else {
            let free: Vec<&&str> = VAR_NAMES.iter().filter(|n| !vis.iter().any(|(k, _)| k == **n)).collect();
            if free.is_empty() {
                return self.trace_stmt();
            }
            free[self.c.below(free.len())].to_string()
        };
        if self.in_closure > 0 && self.p.no_closure_outer_assign && vis.iter().any(|(k, _)| *k == name) {
            return self.trace_stmt();
        }
        let v = self.expr(t, d.saturating_sub(1));
        self.define(&name, t);
        E::Assign(Target::Var(name, vec![]), Box::new(v))
    }

    /// `if cond { return e }` / `if cond { abort "m" }` and rarely the bare forms
    fn jump_stmt(&mut self, d: usize) -> E {
        let total = self.p.returns as usize + self.p.aborts as usize;
        if total == 0 {
            return self.trace_stmt();
        }
        let is_ret = self.c.below(total) < self.p.returns as usize;
        let jump = if is_ret {
            let t = self.any_ty();
            self.pure += 1;
            let v = self.expr(t, d.saturating_sub(1).min(1));
            self.pure -= 1;
            E::Return(Box::new(v))
        } else {
            match self.c.below(3) {
                0 => E::Abort(None),
                1 => E::Abort(Some(Box::new(E::Lit(TV::Str(STR_LITS[1 + self.c.below(STR_LITS.len() - 1)].to_string()))))),
                _ => {
                    self.pure += 1;
                    let m = self.expr(Ty::Str, 1);
                    self.pure -= 1;
                    E::Abort(Some(Box::new(m)))
                }
            }
        };
        if self.c.chance(1, 8) {
            return jump;
        }
        self.pure += 1;
        let cond = self.expr(Ty::Bool, d.saturating_sub(1).min(2));
        self.pure -= 1;
        E::If { arms: vec![(vec![cond], vec![jump])], els: None }
    }

    fn closure_call(&mut self, ty: Ty, d: usize) -> E {
        // result type: filter/map_values keep the collection kind; map_keys objects only
        let f = match ty {
            Ty::Obj => ["filter", "map_values", "map_keys"][self.c.below(3)],
            Ty::Arr => ["filter", "map_values"][self.c.below(2)],
            _ => "for_each",
        };
        self.closure_of(f, ty, d)
    }

    /// `replace_with(<string>, r'..', count: n) -> |m| { .. <string> }`: the closure runs once per
    /// regex match with the match object (`string`, `captures`, named groups) as its parameter
    fn replace_with_call(&mut self, d: usize) -> E {
        const PATTERNS: [&str; 6] = [r"\d+", "(a)|b", "[a-c]", r"(?P<num>\d)x?", "o+", ""];
        let pattern = PATTERNS[self.c.below(PATTERNS.len())];
        self.pure += 1;
        let value = if self.c.chance(1, 2) {
            E::Bin(
                BinOp::Err,
                Box::new(E::Call { f: "string".into(), bang: false, args: vec![(None, E::Ev(self.ev_path()))], closure: None }),
                Box::new(self.lit(Ty::Str)),
            )
        } else {
            self.expr(Ty::Str, d.min(1))
        };
        self.pure -= 1;
        let mut args = vec![(None, value), (None, E::Lit(TV::Regex(pattern.to_string())))];
        if self.c.chance(1, 3) {
            args.push((Some("count".to_string()), E::Lit(TV::Int([-1i64, 0, 1, 2][self.c.below(4)]))));
        }
        let vis = self.visible();
        let param = if self.p.shadowing && !vis.is_empty() && self.c.chance(1, 2) {
            vis[self.c.below(vis.len())].0.clone()
        } else {
            PARAM_NAMES[self.c.below(PARAM_NAMES.len())].to_string()
        };
        self.scopes.push(BTreeMap::new());
        self.in_closure += 1;
        self.scopes.last_mut().unwrap().insert(param.clone(), Ty::Obj);
        let pure_body = self.p.no_closure_outer_assign;
        if pure_body {
            self.pure += 1;
        }
        let mut body = Vec::new();
        if self.c.chance(2, 3) {
            body.push(self.stmt(d));
        }
        let whole = || E::Var(param.clone(), vec![Seg::F("string".into())]);
        let call1 = |f: &str, a: E| E::Call { f: f.to_string(), bang: false, args: vec![(None, a)], closure: None };
        let mut fails = false;
        if self.p.failing_closures && self.c.chance(1, 3) {
            // the first capture group is null when it did not take part in the match (and absent
            // when the pattern has no group): `string(..)` then fails on that iteration
            fails = true;
            body.push(call1("string", E::Var(param.clone(), vec![Seg::F("captures".into()), Seg::I(0)])));
        } else {
            let last = match self.c.below(4) {
                0 => call1("upcase", whole()),
                1 => E::Bin(BinOp::Add, Box::new(whole()), Box::new(self.lit(Ty::Str))),
                2 => call1("to_string", call1("length", E::Var(param.clone(), vec![Seg::F("captures".into())]))),
                _ => self.expr(Ty::Str, d),
            };
            body.push(last);
        }
        if pure_body {
            self.pure -= 1;
        }
        self.in_closure -= 1;
        self.scopes.pop();
        let call = E::Call { f: "replace_with".to_string(), bang: false, args, closure: Some((vec![param], body)) };
        if fails {
            E::Bin(BinOp::Err, Box::new(call), Box::new(self.lit(Ty::Str)))
        } else {
            call
        }
    }

    fn closure_of(&mut self, f: &str, coll_ty: Ty, d: usize) -> E {
        let coll_ty = if coll_ty == Ty::Arr || coll_ty == Ty::Obj { coll_ty } else if self.c.chance(1, 2) { Ty::Arr } else { Ty::Obj };
        self.pure += 1;
        // a failing closure over a literal array yields a union of arrays of different lengths
        let literal_ok = !(self.p.avoid_kind_findings && coll_ty == Ty::Arr);
        let coll = match if literal_ok { self.c.below(3) } else { 1 + self.c.below(2) } {
            0 => {
                // literal collection with a few elements
                let n = 1 + self.c.below(3);
                if coll_ty == Ty::Arr {
                    E::Arr((0..n).map(|_| { let t = self.any_ty(); self.lit(t) }).collect())
                } else {
                    E::Obj((0..n).map(|i| { let t = self.any_ty(); (FIELDS[i].to_string(), self.lit(t)) }).collect())
                }
            }
            _ => {
                // typed view of an event field
                let f = if coll_ty == Ty::Arr { "array" } else { "object" };
                let field = if coll_ty == Ty::Arr { "arr" } else { "obj" };
                E::Bin(
                    BinOp::Err,
                    Box::new(E::Call { f: f.into(), bang: false, args: vec![(None, E::Ev(vec![Seg::F(field.into())]))], closure: None }),
                    Box::new(self.lit(coll_ty)),
                )
            }
        };
        self.pure -= 1;
        let nparams = if matches!(f, "map_values" | "map_keys") { 1 } else { 2 };
        let vis = self.visible();
        let mut params: Vec<String> = Vec::new();
        for i in 0..nparams {
            let shadow: Vec<&String> = vis.iter().map(|(k, _)| k).filter(|k| !params.contains(k)).collect();
            if self.p.shadowing && !shadow.is_empty() && self.c.chance(1, 2) {
                params.push(shadow[self.c.below(shadow.len())].clone());
            } else {
                // the key/index parameter of a two-parameter closure is sometimes the placeholder `_`
                if nparams == 2 && i == 0 && self.c.chance(1, 4) {
                    params.push("_".to_string());
                    continue;
                }
                let mut n = PARAM_NAMES[(self.c.below(PARAM_NAMES.len()) + i) % PARAM_NAMES.len()].to_string();
                while params.contains(&n) {
                    n.push('2');
                }
                params.push(n);
            }
        }
        // body
        self.scopes.push(BTreeMap::new());
        self.in_closure += 1;
        // parameter types: key is a string (object) or integer (array); value is any
        // parameters live in the closure's own scope (they shadow, they do not redefine)
        let tys: Vec<Ty> = match (f, coll_ty) {
            ("map_keys", _) => vec![Ty::Str],
            ("map_values", _) => vec![Ty::Any],
            (_, Ty::Obj) => vec![Ty::Str, Ty::Any],
            _ => vec![Ty::Int, Ty::Any],
        };
        for (p, t) in params.iter().zip(tys) {
            self.scopes.last_mut().unwrap().insert(p.clone(), t);
        }
        let body_ty = match f {
            "filter" => Ty::Bool,
            "map_keys" => Ty::Str,
            "map_values" => self.any_ty(),
            _ => self.any_ty(),
        };
        let mut body = Vec::new();
        // with the switch on, closure bodies have no effects on outer variables or the targets
        // (the compiler does not apply them to the type state: known finding D08)
        let pure_body = self.p.no_closure_outer_assign;
        if pure_body {
            self.pure += 1;
        }
        if self.c.chance(2, 3) {
            body.push(self.stmt(d));
        }
        let value_param = params.last().unwrap().clone();
        let mut fails = false;
        if self.p.failing_closures && self.c.chance(1, 2) {
            // the body's value is a call that fails on elements of the wrong kind (a fallible
            // *assignment* inside the body would have to be handled inside the body)
            fails = true;
            let call = |f: &str, a: E| E::Call { f: f.to_string(), bang: false, args: vec![(None, a)], closure: None };
            let last = match f {
                "filter" => call(["bool", "to_bool"][self.c.below(2)], E::Var(value_param, vec![])),
                "map_keys" => call("upcase", E::Ev(self.ev_path())),
                _ => call(["to_int", "string", "int", "to_float"][self.c.below(4)], E::Var(value_param, vec![])),
            };
            body.push(last);
        } else {
            body.push(self.expr(body_ty, d));
        }
        if pure_body {
            self.pure -= 1;
        }
        self.in_closure -= 1;
        self.scopes.pop();
        let call = E::Call { f: f.to_string(), bang: false, args: vec![(None, coll)], closure: Some((params, body)) };
        if fails {
            // the call is fallible: handle it
            let dflt = if f == "for_each" { E::Lit(TV::Null) } else { self.lit(coll_ty) };
            E::Bin(BinOp::Err, Box::new(call), Box::new(dflt))
        } else {
            call
        }
    }

    fn stmt(&mut self, d: usize) -> E {
        if self.pure > 0 {
            return self.pure_expr_any(d);
        }
        let w = [
            (4, 0),                               // assign var
            (3, 1),                               // assign event
            (self.p.infallible_assign as usize, 2),
            (2, 3),                               // trace
            (self.p.dels as usize, 4),
            (self.p.closures as usize, 5),
            ((self.p.returns + self.p.aborts) as usize, 6),
            (2, 7),                               // if statement with effects
            (if self.p.metadata { 1 } else { 0 }, 8),
            (1, 9),                               // variable path assignment
            (self.p.short_circuit as usize, 10),  // bare short-circuit with effects
        ];
        let total: usize = w.iter().map(|(a, _)| a).sum();
        let mut pick = self.c.below(total);
        let mut kind = 0;
        for (a, k) in w {
            if pick < a {
                kind = k;
                break;
            }
            pick -= a;
        }
        let d1 = d.saturating_sub(1);
        match kind {
            0 => self.assign_var(d),
            1 => {
                let t = self.any_ty();
                let v = self.expr(t, d1);
                E::Assign(Target::Ev(self.ev_path()), Box::new(v))
            }
            2 => {
                let t = self.any_ty();
                let f = self.fallible(t, d1);
                let vis = self.visible();
                let mut free: Vec<String> = VAR_NAMES.iter().map(|s| s.to_string()).filter(|n| !vis.iter().any(|(k, _)| k == n)).collect();
                let ok = match self.c.below(4) {
                    0 => Target::Ev(vec![Seg::F("ok".into())]),
                    1 => Target::Noop,
                    _ if !free.is_empty() => {
                        let n = free.remove(self.c.below(free.len()));
                        self.define(&n, t);
                        Target::Var(n, vec![])
                    }
                    _ => Target::Ev(vec![Seg::F("ok".into())]),
                };
                let err = match self.c.below(4) {
                    0 => Target::Ev(vec![Seg::F("err".into())]),
                    1 => Target::Noop,
                    2 if self.p.metadata => Target::Meta(vec![Seg::F("err".into())]),
                    _ if !free.is_empty() => {
                        let n = free.remove(self.c.below(free.len()));
                        // err holds text the reference does not model: typed Null so that the
                        // generator never feeds it into computations
                        self.define(&n, Ty::Null);
                        Target::Var(n, vec![])
                    }
                    _ => Target::Ev(vec![Seg::F("err".into())]),
                };
                let dflt = match t {
                    Ty::Int => TV::Int(0),
                    Ty::Float => TV::float(0.0),
                    Ty::Str => TV::Str(String::new()),
                    Ty::Bool => TV::Bool(false),
                    Ty::Arr => TV::Array(vec![]),
                    Ty::Obj => TV::Object(BTreeMap::new()),
                    // the compiler may know more about the operands than the generator does
                    // (e.g. `.obj + .a` after `.obj = ""` is a string): leave the default open
                    Ty::Null | Ty::Any => TV::Str(crate::model::interp::DEFAULT_MARK.to_string()),
                };
                let no_vars = !matches!(ok, Target::Var(..)) && !matches!(err, Target::Var(..));
                let ai = E::AssignInf { ok, err, e: Box::new(f), dflt };
                // the assignment is itself an expression (value of e, or the error message); in
                // operand position it is printed inside a block, which would scope new variables
                if no_vars && self.c.chance(1, 2) {
                    E::Assign(Target::Ev(vec![Seg::F("seen".into())]), Box::new(ai))
                } else {
                    ai
                }
            }
            3 => self.trace_stmt(),
            4 => {
                let vars: Vec<String> = self.vars_of(Ty::Obj);
                if !self.p.no_del_on_variable_paths && !vars.is_empty() && self.c.chance(1, 4) {
                    let v = vars[self.c.below(vars.len())].clone();
                    E::Del { target: Target::Var(v, vec![Seg::F(FIELDS[self.c.below(4)].to_string())]), compact: false }
                } else {
                    E::Del { target: Target::Ev(self.ev_path()), compact: self.c.chance(1, 4) }
                }
            }
            5 => {
                let f = ["for_each", "for_each", "filter", "map_values", "map_keys"][self.c.below(5)];
                let ty = if f == "map_keys" { Ty::Obj } else { Ty::Any };
                let call = self.closure_of(f, ty, d1);
                if f == "for_each" {
                    call
                } else {
                    E::Assign(Target::Ev(vec![Seg::F("res".into())]), Box::new(call))
                }
            }
            6 => self.jump_stmt(d),
            7 => {
                self.pure += 1;
                let p = self.expr(Ty::Bool, d1);
                self.pure -= 1;
                self.scopes.push(BTreeMap::new());
                let a = vec![self.effect_stmt(d1)];
                self.scopes.pop();
                let els = if self.c.chance(1, 2) {
                    self.scopes.push(BTreeMap::new());
                    let b = vec![self.effect_stmt(d1)];
                    self.scopes.pop();
                    Some(b)
                } else {
                    None
                };
                let mut arms = vec![(vec![p], a)];
                // `else if` ladders: up to three further arms, evaluated strictly in order; a third of
                // the further predicates carry an effect of their own (`else if (.t = push(..); p)`)
                let mut more = self.c.chance(1, 4);
                while more && arms.len() < 4 {
                    self.pure += 1;
                    let p2 = self.expr(Ty::Bool, d1);
                    self.pure -= 1;
                    let mut pred = Vec::new();
                    if self.c.chance(1, 3) {
                        pred.push(self.trace_stmt());
                    }
                    pred.push(p2);
                    self.scopes.push(BTreeMap::new());
                    let b2 = vec![self.effect_stmt(d1)];
                    self.scopes.pop();
                    arms.push((pred, b2));
                    more = self.c.chance(1, 2);
                }
                E::If { arms, els }
            }
            8 => {
                let t = self.any_ty();
                let v = self.expr(t, d1);
                E::Assign(Target::Meta(vec![Seg::F(["m", "tag"][self.c.below(2)].to_string())]), Box::new(v))
            }
            9 => {
                let vars = self.vars_of(Ty::Obj);
                if vars.is_empty() {
                    return self.assign_var(d);
                }
                let v = vars[self.c.below(vars.len())].clone();
                let t = self.any_ty();
                let e = self.expr(t, d1);
                E::Assign(Target::Var(v, vec![Seg::F(FIELDS[self.c.below(4)].to_string())]), Box::new(e))
            }
            _ => {
                let op = [BinOp::And, BinOp::Or][self.c.below(2)];
                self.pure += 1;
                let a = self.expr(Ty::Bool, d1);
                self.pure -= 1;
                let b = self.effectful_operand(Ty::Bool, d1);
                E::Assign(Target::Ev(vec![Seg::F("sc".into())]), Box::new(E::Bin(op, Box::new(a), Box::new(b))))
            }
        }
    }
}

fn event_value(c: &mut Cur) -> TV {
    let scalar = |c: &mut Cur| -> TV {
        match c.below(9) {
            0 => TV::Null,
            1 => TV::Bool(c.chance(1, 2)),
            2 | 3 => TV::Int(INT_LITS[c.below(INT_LITS.len())]),
            4 => TV::float([0.0, 1.5, -2.25, 1e300][c.below(4)]),
            5 => TV::Str(["12", "-3", "4.5", "true"][c.below(4)].to_string()),
            _ => TV::Str(STR_LITS[c.below(STR_LITS.len())].to_string()),
        }
    };
    let mut m = BTreeMap::new();
    for f in ["a", "b", "c", "d", "n", "s"] {
        if c.chance(3, 4) {
            let v = match c.below(6) {
                0 => TV::Array((0..c.below(4)).map(|_| scalar(c)).collect()),
                1 => TV::Object((0..c.below(3)).map(|i| (FIELDS[i].to_string(), scalar(c))).collect()),
                _ => scalar(c),
            };
            m.insert(f.to_string(), v);
        }
    }
    if c.chance(4, 5) {
        m.insert("flag".into(), TV::Bool(c.chance(1, 2)));
    }
    if c.chance(4, 5) {
        m.insert("arr".into(), TV::Array((0..c.below(5)).map(|_| scalar(c)).collect()));
    }
    if c.chance(4, 5) {
        m.insert("obj".into(), TV::Object((0..c.below(5)).map(|i| (FIELDS[i].to_string(), scalar(c))).collect()));
    }
    TV::Object(m)
}

pub fn build(bytes: &[u8], preset: Preset) -> ProgCase {
    // the first part of the stream shapes the event, the rest the program
    let mut ec = Cur { b: bytes, i: 0 };
    let event = event_value(&mut ec);
    let meta = if ec.chance(1, 2) {
        TV::Object([("m".to_string(), TV::Int(1)), ("tag".to_string(), TV::Str("t".into()))].into_iter().collect())
    } else {
        TV::Object(BTreeMap::new())
    };
    let used = ec.i;
    let mut b = B { c: Cur { b: &bytes[used.min(bytes.len())..], i: 0 }, p: preset, scopes: vec![BTreeMap::new()], pure: 0, in_closure: 0, trace_n: 0 };
    let n = 1 + b.c.below(preset.max_stmts);
    let mut prog = Vec::new();
    for _ in 0..n {
        prog.push(b.stmt(3));
        if b.c.exhausted() {
            break;
        }
    }
    // the final expression gives the program a value
    let t = b.any_ty();
    prog.push(b.expr(t, 2));
    ProgCase { prog, event, meta }
}

pub fn strategy(preset: Preset) -> impl Strategy<Value = ProgCase> {
    proptest::collection::vec(any::<u8>(), 40..400).prop_map(move |bytes| build(&bytes, preset))
}
