pub mod diff;
pub mod interp;
pub mod member;
pub mod targets;
pub mod vpath;
