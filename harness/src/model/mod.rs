pub mod vpath;
