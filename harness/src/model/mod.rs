pub mod diff;
pub mod interp;
pub mod member;
pub mod vpath;
