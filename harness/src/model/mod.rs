pub mod member;
pub mod vpath;
