//! Differential execution of a generated program: real compiler+runtime vs reference interpreter.

use vrl::parser::ast::Ident;

use crate::gens::prog::{program_src, walk, E};
use crate::gens::proggen::ProgCase;
use crate::gens::value::TV;
use crate::model::interp::{self, end_of, Env, RefEnd, Stats};
use crate::vrlx::{self, End};

pub enum Diff {
    /// the compiler rejected the program (diagnostic summary)
    Rejected(String),
    /// the reference cannot evaluate the case
    Unsupported(String),
    Mismatch(String),
    Agree(Box<Agreed>),
}

pub struct Agreed {
    pub stats: Stats,
    pub end: RefEnd,
    pub src: String,
    pub warnings: usize,
}

pub fn closure_params(prog: &[E]) -> Vec<String> {
    let mut out: Vec<String> = Vec::new();
    for s in prog {
        walk(s, &mut |x| {
            if let E::Call { closure: Some((params, _)), .. } = x {
                for p in params {
                    if p != "_" && !out.contains(p) {
                        out.push(p.clone());
                    }
                }
            }
        });
    }
    out
}

pub fn differential(case: &ProgCase) -> Diff {
    let src = program_src(&case.prog);
    let res = match vrlx::compile(&src) {
        Ok(r) => r,
        Err(d) => return Diff::Rejected(vrlx::diag_summary(&d)),
    };
    let mut env = Env::new(case.event.clone(), case.meta.clone());
    let rend = end_of(env.run(&case.prog));
    if let RefEnd::Unsupported(why) = &rend {
        return Diff::Unsupported(why.clone());
    }
    let out = vrlx::run(&res.program, case.event.to_value(), case.meta.to_value());
    let fail = |what: String| Diff::Mismatch(format!("{what}\n--- program:\n{src}--- event: {:?}", case.event));
    // outcome
    match (&rend, &out.end) {
        (RefEnd::Ok(w), End::Ok(g)) | (RefEnd::Return(w), End::Return(g)) => {
            if !interp::matches(w, g) {
                return fail(format!("result value differs: reference {w:?}, real {g}"));
            }
        }
        (RefEnd::Error, End::Error(_)) => {}
        (RefEnd::Abort(w), End::Abort(g)) => {
            if w != g {
                return fail(format!("abort message differs: reference {w:?}, real {g:?}"));
            }
        }
        (w, g) => return fail(format!("outcome differs: reference {w:?}, real {g:?}")),
    }
    if !interp::matches(&env.event, &out.event) {
        return fail(format!("final event differs: reference {:?}, real {}", env.event, out.event));
    }
    if !interp::matches(&env.meta, &out.metadata) {
        return fail(format!("final metadata differs: reference {:?}, real {}", env.meta, out.metadata));
    }
    for (name, want) in &env.vars {
        match out.state.variable(&Ident::new(name.clone())) {
            Some(got) if interp::matches(want, got) => {}
            other => return fail(format!("variable `{name}` differs: reference {want:?}, real {:?}", other.map(ToString::to_string))),
        }
    }
    // closure parameters that were unset before the call must not remain visible
    for p in closure_params(&case.prog) {
        if !env.vars.contains_key(&p) {
            if let Some(v) = out.state.variable(&Ident::new(p.clone())) {
                return fail(format!("closure parameter `{p}` is still visible after the run with value {v}"));
            }
        }
    }
    Diff::Agree(Box::new(Agreed { stats: env.stats, end: rend, src, warnings: res.warnings.len() }))
}

pub fn tv_is_default_marker(v: &TV) -> bool {
    matches!(v, TV::Str(s) if s == interp::DEFAULT_MARK)
}
