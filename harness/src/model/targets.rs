//! `Target` wrappers around `TargetValue`: a logging target (C15, C16) and a fault-injecting
//! target (C17). Both forward secrets untouched.

use std::cell::{Cell, RefCell};

use serde::{Deserialize, Serialize};
use vrl::compiler::{SecretTarget, Target, TargetValue};
use vrl::path::{OwnedTargetPath, PathPrefix};
use vrl::value::{Secrets, Value};

use crate::gens::path::{from_owned_path, SegPath};

#[derive(Clone, Copy, Debug, PartialEq, Eq, PartialOrd, Ord, Serialize, Deserialize)]
pub enum Op {
    Get,
    GetMut,
    Insert,
    Remove,
}

/// One target operation as seen by the wrapper (path exactly as the runtime passed it).
#[derive(Clone, Debug, PartialEq, Eq, PartialOrd, Ord)]
pub struct Access {
    pub op: Op,
    pub meta: bool,
    pub path: SegPath,
    pub compact: bool,
}

impl Access {
    fn new(op: Op, p: &OwnedTargetPath, compact: bool) -> Access {
        Access { op, meta: p.prefix == PathPrefix::Metadata, path: from_owned_path(&p.path), compact }
    }
    pub fn render(&self) -> String {
        let t = if self.meta { crate::gens::prog::Target::Meta(self.path.clone()) } else { crate::gens::prog::Target::Ev(self.path.clone()) };
        format!("{:?}({}{})", self.op, crate::gens::prog::target_src(&t), if self.compact { ", compact" } else { "" })
    }
}

pub fn target_value(event: Value, metadata: Value) -> TargetValue {
    TargetValue { value: event, metadata, secrets: Secrets::default() }
}

// ------------------------------------------------------------------------------------------

#[derive(Debug)]
pub struct LogTarget {
    pub inner: TargetValue,
    pub log: RefCell<Vec<Access>>,
}

impl LogTarget {
    pub fn new(event: Value, metadata: Value) -> LogTarget {
        LogTarget { inner: target_value(event, metadata), log: RefCell::new(Vec::new()) }
    }
    pub fn accesses(&self) -> Vec<Access> {
        self.log.borrow().clone()
    }
}

impl Target for LogTarget {
    fn target_insert(&mut self, path: &OwnedTargetPath, value: Value) -> Result<(), String> {
        self.log.borrow_mut().push(Access::new(Op::Insert, path, false));
        self.inner.target_insert(path, value)
    }
    fn target_get(&self, path: &OwnedTargetPath) -> Result<Option<&Value>, String> {
        self.log.borrow_mut().push(Access::new(Op::Get, path, false));
        self.inner.target_get(path)
    }
    fn target_get_mut(&mut self, path: &OwnedTargetPath) -> Result<Option<&mut Value>, String> {
        self.log.borrow_mut().push(Access::new(Op::GetMut, path, false));
        self.inner.target_get_mut(path)
    }
    fn target_remove(&mut self, path: &OwnedTargetPath, compact: bool) -> Result<Option<Value>, String> {
        self.log.borrow_mut().push(Access::new(Op::Remove, path, compact));
        self.inner.target_remove(path, compact)
    }
}

impl SecretTarget for LogTarget {
    fn get_secret(&self, key: &str) -> Option<&str> {
        self.inner.get_secret(key)
    }
    fn insert_secret(&mut self, key: &str, value: &str) {
        self.inner.insert_secret(key, value);
    }
    fn remove_secret(&mut self, key: &str) {
        self.inner.remove_secret(key);
    }
}

// ------------------------------------------------------------------------------------------

/// Which operations are rejected: bit `i` of a mask = the `i`-th (0-based) operation of that
/// kind (`get` counts `target_get` and `target_get_mut` together); `*_from` = every operation
/// of that kind with ordinal >= n is rejected as well.
#[derive(Clone, Debug, Default, PartialEq, Eq, Serialize, Deserialize)]
pub struct FaultPlan {
    pub get_mask: u32,
    pub insert_mask: u32,
    pub remove_mask: u32,
    pub get_from: Option<u32>,
    pub insert_from: Option<u32>,
    pub remove_from: Option<u32>,
    /// reads of the event root are rejected (whatever their ordinal)
    pub root_read_fails: bool,
}

impl FaultPlan {
    pub fn is_empty(&self) -> bool {
        *self == FaultPlan::default()
    }
    fn hit(mask: u32, from: Option<u32>, ordinal: u32) -> bool {
        (ordinal < 32 && (mask >> ordinal) & 1 == 1) || from.is_some_and(|n| ordinal >= n)
    }
}

#[derive(Clone, Copy, Debug, PartialEq, Eq)]
pub enum FaultMode {
    /// planned operations return `Err("injected")` and do not touch the inner target
    Reject,
    /// planned operations are skipped: get -> Ok(None), insert -> Ok(()), remove -> Ok(None)
    Skip,
}

#[derive(Debug)]
pub struct FaultTarget {
    pub inner: TargetValue,
    pub plan: FaultPlan,
    pub mode: FaultMode,
    gets: Cell<u32>,
    inserts: Cell<u32>,
    removes: Cell<u32>,
    /// planned operations that were reached
    pub hits: Cell<u32>,
    /// target operations (of any kind) performed after the first hit
    pub ops_after_first_hit: Cell<u32>,
    pub hit_kinds: RefCell<Vec<Op>>,
}

impl FaultTarget {
    pub fn new(event: Value, metadata: Value, plan: FaultPlan, mode: FaultMode) -> FaultTarget {
        FaultTarget {
            inner: target_value(event, metadata),
            plan,
            mode,
            gets: Cell::new(0),
            inserts: Cell::new(0),
            removes: Cell::new(0),
            hits: Cell::new(0),
            ops_after_first_hit: Cell::new(0),
            hit_kinds: RefCell::new(Vec::new()),
        }
    }

    pub fn remove_ops(&self) -> u32 {
        self.removes.get()
    }

    pub fn insert_ops(&self) -> u32 {
        self.inserts.get()
    }

    pub fn total_ops(&self) -> u32 {
        self.gets.get() + self.inserts.get() + self.removes.get()
    }

    fn decide(&self, op: Op, path: &OwnedTargetPath) -> bool {
        let (ctr, mask, from) = match op {
            Op::Get | Op::GetMut => (&self.gets, self.plan.get_mask, self.plan.get_from),
            Op::Insert => (&self.inserts, self.plan.insert_mask, self.plan.insert_from),
            Op::Remove => (&self.removes, self.plan.remove_mask, self.plan.remove_from),
        };
        let ordinal = ctr.get();
        ctr.set(ordinal.saturating_add(1));
        let root_read = matches!(op, Op::Get | Op::GetMut) && self.plan.root_read_fails && path.prefix == PathPrefix::Event && path.path.is_root();
        let hit = root_read || FaultPlan::hit(mask, from, ordinal);
        if self.hits.get() > 0 {
            self.ops_after_first_hit.set(self.ops_after_first_hit.get().saturating_add(1));
        }
        if hit {
            self.hits.set(self.hits.get().saturating_add(1));
            self.hit_kinds.borrow_mut().push(op);
        }
        hit
    }
}

const INJECTED: &str = "injected";

impl Target for FaultTarget {
    fn target_insert(&mut self, path: &OwnedTargetPath, value: Value) -> Result<(), String> {
        if self.decide(Op::Insert, path) {
            return match self.mode {
                FaultMode::Reject => Err(INJECTED.to_string()),
                FaultMode::Skip => Ok(()),
            };
        }
        self.inner.target_insert(path, value)
    }
    fn target_get(&self, path: &OwnedTargetPath) -> Result<Option<&Value>, String> {
        if self.decide(Op::Get, path) {
            return match self.mode {
                FaultMode::Reject => Err(INJECTED.to_string()),
                FaultMode::Skip => Ok(None),
            };
        }
        self.inner.target_get(path)
    }
    fn target_get_mut(&mut self, path: &OwnedTargetPath) -> Result<Option<&mut Value>, String> {
        if self.decide(Op::GetMut, path) {
            return match self.mode {
                FaultMode::Reject => Err(INJECTED.to_string()),
                FaultMode::Skip => Ok(None),
            };
        }
        self.inner.target_get_mut(path)
    }
    fn target_remove(&mut self, path: &OwnedTargetPath, compact: bool) -> Result<Option<Value>, String> {
        if self.decide(Op::Remove, path) {
            return match self.mode {
                FaultMode::Reject => Err(INJECTED.to_string()),
                FaultMode::Skip => Ok(None),
            };
        }
        self.inner.target_remove(path, compact)
    }
}

impl SecretTarget for FaultTarget {
    fn get_secret(&self, key: &str) -> Option<&str> {
        self.inner.get_secret(key)
    }
    fn insert_secret(&mut self, key: &str, value: &str) {
        self.inner.insert_secret(key, value);
    }
    fn remove_secret(&mut self, key: &str) {
        self.inner.remove_secret(key);
    }
}
