//! Membership of a value in a kind, written from the documentation of `Kind` with public
//! accessors only (independent of `Kind::is_superset` and of `Kind::from(Value)`).

use vrl::value::kind::{Field, Index};
use vrl::value::{Kind, Value};

pub fn admits_undefined(k: &Kind) -> bool {
    // the `contains_*` accessors answer `true` on `never`; `never` has no members at all
    !k.is_never() && k.contains_undefined()
}

pub fn member(v: &Value, k: &Kind) -> bool {
    if k.is_never() {
        return false;
    }
    match v {
        Value::Bytes(_) => k.contains_bytes(),
        Value::Integer(_) => k.contains_integer(),
        Value::Float(_) => k.contains_float(),
        Value::Boolean(_) => k.contains_boolean(),
        Value::Timestamp(_) => k.contains_timestamp(),
        Value::Regex(_) => k.contains_regex(),
        Value::Null => k.contains_null(),
        Value::Object(map) => {
            let Some(c) = k.as_object() else { return false };
            for (key, val) in map {
                let fk = c.known().get(&Field::from(key.as_str())).cloned().unwrap_or_else(|| c.unknown_kind());
                if !member(val, &fk) {
                    return false;
                }
            }
            c.known().iter().all(|(key, kk)| map.contains_key(key.as_str()) || admits_undefined(kk))
        }
        Value::Array(items) => {
            let Some(c) = k.as_array() else { return false };
            for (i, val) in items.iter().enumerate() {
                let ik = c.known().get(&Index::from(i)).cloned().unwrap_or_else(|| c.unknown_kind());
                if !member(val, &ik) {
                    return false;
                }
            }
            c.known().iter().all(|(i, kk)| i.to_usize() < items.len() || admits_undefined(kk))
        }
    }
}

/// membership of "what a read returned": `None` is a member iff the kind admits undefined
pub fn member_opt(v: Option<&Value>, k: &Kind) -> bool {
    match v {
        Some(v) => member(v, k),
        None => admits_undefined(k),
    }
}

/// human-readable reason for a non-membership (first offending location)
pub fn why_not(v: &Value, k: &Kind) -> String {
    fn go(v: &Value, k: &Kind, path: &mut String) -> Option<String> {
        if k.is_never() {
            return Some(format!("{path}: kind is never"));
        }
        match v {
            Value::Object(map) => {
                let Some(c) = k.as_object() else { return Some(format!("{path}: object not admitted by {k}")) };
                for (key, val) in map {
                    let fk = c.known().get(&Field::from(key.as_str())).cloned().unwrap_or_else(|| c.unknown_kind());
                    let l = path.len();
                    path.push_str(&format!(".{key:?}"));
                    if let Some(w) = go(val, &fk, path) {
                        return Some(w);
                    }
                    path.truncate(l);
                }
                for (key, kk) in c.known() {
                    if !map.contains_key(key.as_str()) && !admits_undefined(kk) {
                        return Some(format!("{path}: required field {key:?} (kind {kk}) is absent"));
                    }
                }
                None
            }
            Value::Array(items) => {
                let Some(c) = k.as_array() else { return Some(format!("{path}: array not admitted by {k}")) };
                for (i, val) in items.iter().enumerate() {
                    let ik = c.known().get(&Index::from(i)).cloned().unwrap_or_else(|| c.unknown_kind());
                    let l = path.len();
                    path.push_str(&format!("[{i}]"));
                    if let Some(w) = go(val, &ik, path) {
                        return Some(w);
                    }
                    path.truncate(l);
                }
                for (i, kk) in c.known() {
                    if i.to_usize() >= items.len() && !admits_undefined(kk) {
                        return Some(format!("{path}: required index {} (kind {kk}) is absent (len {})", i.to_usize(), items.len()));
                    }
                }
                None
            }
            other => {
                if member(other, k) {
                    None
                } else {
                    Some(format!("{path}: value {other} not admitted by kind {k} ({k:?})"))
                }
            }
        }
    }
    go(v, k, &mut String::from("<root>")).unwrap_or_else(|| "is a member".to_string())
}
