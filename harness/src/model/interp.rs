//! Big-step reference interpreter over the harness AST, implementing the semantics the property
//! statements give (C06–C09, C13): `return`/`abort` propagate through every enclosing expression
//! (a closure body turns `return v` into the iteration value), `??` and `ok, err =` catch only
//! errors, `||`/`&&`/`if` are short-circuit, closure parameters are saved and restored on every
//! exit path. Plain function calls are *delegated*: the reference evaluates the arguments itself
//! and obtains `f(values)` by running that one call through the real stdlib.

use std::cell::RefCell;
use std::collections::{BTreeMap, HashMap};

use vrl::compiler::Program;
use vrl::value::Value;

use crate::gens::path::Seg;
use crate::gens::prog::{BinOp, Target, E};
use crate::gens::value::TV;
use crate::model::vpath;
use crate::vrlx::{self, End};

/// stands for "some error message" wherever the reference does not model the text
pub const ERRMSG: &str = "\u{1}<error message>";

#[derive(Debug, Clone, PartialEq)]
pub enum Flow {
    Err,
    Abort(Option<String>),
    Ret(TV),
    /// the reference cannot evaluate this case (delegate did not compile, step budget, …)
    Unsupported(String),
}

pub type R = Result<TV, Flow>;

#[derive(Debug, Default, Clone)]
pub struct Stats {
    pub steps: usize,
    /// executed `return`s with the stack of enclosing constructs (innermost last)
    pub returns: Vec<Vec<&'static str>>,
    pub aborts: Vec<Vec<&'static str>>,
    pub coalesce_left_ok: usize,
    pub coalesce_left_err: usize,
    pub inf_assign_ok: usize,
    pub inf_assign_err: usize,
    pub skipped_effect: usize,
    pub evaluated_effect: usize,
    pub closure_iterations: usize,
    pub closure_failed: usize,
    pub closure_returned: usize,
    pub closure_shadowed_outer: usize,
    pub calls: usize,
    pub default_classes: Vec<&'static str>,
}

pub struct Env {
    pub event: TV,
    pub meta: TV,
    pub vars: BTreeMap<String, TV>,
    pub stats: Stats,
    ctx: Vec<&'static str>,
    in_closure: usize,
}

const STEP_BUDGET: usize = 20_000;

thread_local! {
    static DELEGATES: RefCell<HashMap<String, Option<std::rc::Rc<Program>>>> = RefCell::new(HashMap::new());
}

fn delegate_program(src: &str) -> Option<std::rc::Rc<Program>> {
    DELEGATES.with(|d| {
        let mut d = d.borrow_mut();
        if d.len() > 4096 {
            d.clear();
        }
        d.entry(src.to_string()).or_insert_with(|| vrlx::compile(src).ok().map(|r| std::rc::Rc::new(r.program))).clone()
    })
}

pub fn has_effect(e: &E) -> bool {
    let mut found = false;
    crate::gens::prog::walk(e, &mut |x| {
        if matches!(x, E::Assign(..) | E::AssignInf { .. } | E::Del { .. } | E::Abort(_) | E::Return(_)) {
            found = true;
        }
    });
    found
}

impl Env {
    pub fn new(event: TV, meta: TV) -> Env {
        Env { event, meta, vars: BTreeMap::new(), stats: Stats::default(), ctx: Vec::new(), in_closure: 0 }
    }

    fn tick(&mut self) -> Result<(), Flow> {
        self.stats.steps += 1;
        if self.stats.steps > STEP_BUDGET {
            Err(Flow::Unsupported("step budget".into()))
        } else {
            Ok(())
        }
    }

    pub fn run(&mut self, prog: &[E]) -> R {
        self.block(prog)
    }

    fn block(&mut self, stmts: &[E]) -> R {
        let mut last = TV::Null;
        for s in stmts {
            last = self.eval(s)?;
        }
        Ok(last)
    }

    fn with_ctx<T>(&mut self, name: &'static str, f: impl FnOnce(&mut Env) -> T) -> T {
        self.ctx.push(name);
        let r = f(self);
        self.ctx.pop();
        r
    }

    fn read(&self, t: &Target) -> TV {
        match t {
            Target::Var(v, p) => self.vars.get(v).and_then(|x| vpath::get(x, p)).cloned().unwrap_or(TV::Null),
            Target::Ev(p) => vpath::get(&self.event, p).cloned().unwrap_or(TV::Null),
            Target::Meta(p) => vpath::get(&self.meta, p).cloned().unwrap_or(TV::Null),
            Target::Noop => TV::Null,
        }
    }

    fn write(&mut self, t: &Target, v: TV) {
        match t {
            Target::Var(name, p) => {
                let cur = self.vars.get(name).cloned().unwrap_or(TV::Null);
                self.vars.insert(name.clone(), vpath::insert(&cur, p, &v));
            }
            Target::Ev(p) => self.event = vpath::insert(&self.event, p, &v),
            Target::Meta(p) => self.meta = vpath::insert(&self.meta, p, &v),
            Target::Noop => {}
        }
    }

    pub fn eval(&mut self, e: &E) -> R {
        self.tick()?;
        match e {
            E::Lit(v) => Ok(v.clone()),
            E::Arr(items) => self.with_ctx("array", |s| {
                let mut out = Vec::with_capacity(items.len());
                for it in items {
                    out.push(s.eval(it)?);
                }
                Ok(TV::Array(out))
            }),
            E::Obj(members) => self.with_ctx("object", |s| {
                // members are evaluated in key order; the generator keeps at most one member
                // impure, so the order is not observable
                let mut sorted: Vec<&(String, E)> = members.iter().collect();
                sorted.sort_by(|a, b| a.0.cmp(&b.0));
                let mut out = BTreeMap::new();
                for (k, x) in sorted {
                    let v = s.eval(x)?;
                    out.insert(k.clone(), v);
                }
                Ok(TV::Object(out))
            }),
            E::Var(v, p) => Ok(self.read(&Target::Var(v.clone(), p.clone()))),
            E::Ev(p) => Ok(self.read(&Target::Ev(p.clone()))),
            E::Meta(p) => Ok(self.read(&Target::Meta(p.clone()))),
            E::Not(a) => match decided(self.with_ctx("not", |s| s.eval(a))?)? {
                TV::Bool(b) => Ok(TV::Bool(!b)),
                _ => Err(Flow::Err),
            },
            E::Bin(op, a, b) => self.bin(*op, a, b),
            E::If { arms, els } => {
                for (pred, body) in arms {
                    let p = decided(self.with_ctx("predicate", |s| s.block(pred))?)?;
                    match p {
                        TV::Bool(true) => {
                            // everything after this arm is skipped
                            return self.with_ctx("if_branch", |s| s.block(body));
                        }
                        TV::Bool(false) => {
                            if body.iter().any(has_effect) {
                                self.stats.skipped_effect += 1;
                            }
                        }
                        _ => return Err(Flow::Err),
                    }
                }
                match els {
                    Some(b) => self.with_ctx("else_branch", |s| s.block(b)),
                    None => Ok(TV::Null),
                }
            }
            E::Block(stmts) => self.with_ctx("block", |s| s.block(stmts)),
            E::Assign(t, x) => {
                let v = self.with_ctx("assign_rhs", |s| s.eval(x))?;
                self.write(t, v.clone());
                Ok(v)
            }
            E::AssignInf { ok, err, e, dflt } => {
                let r = self.with_ctx("infallible_assign_rhs", |s| s.eval(e));
                match r {
                    Ok(v) => {
                        self.stats.inf_assign_ok += 1;
                        self.write(ok, v.clone());
                        self.write(err, TV::Null);
                        Ok(v)
                    }
                    Err(Flow::Err) => {
                        self.stats.inf_assign_err += 1;
                        // the default of ok's type, as the generator expects it
                        self.write(ok, dflt.clone());
                        self.write(err, TV::Str(ERRMSG.to_string()));
                        Ok(TV::Str(ERRMSG.to_string()))
                    }
                    Err(other) => Err(other),
                }
            }
            E::Abort(m) => {
                let msg = match m {
                    None => None,
                    Some(x) => match decided(self.with_ctx("abort_message", |s| s.eval(x))?)? {
                        TV::Str(s) => Some(s),
                        _ => return Err(Flow::Err),
                    },
                };
                self.stats.aborts.push(self.ctx.clone());
                Err(Flow::Abort(msg))
            }
            E::Return(x) => {
                let v = self.with_ctx("return_value", |s| s.eval(x))?;
                self.stats.returns.push(self.ctx.clone());
                Err(Flow::Ret(v))
            }
            E::Del { target, compact } => {
                let removed = match target {
                    Target::Var(name, p) => {
                        let mut cur = self.vars.get(name).cloned().unwrap_or(TV::Null);
                        let r = vpath::remove(&mut cur, p, *compact);
                        self.vars.insert(name.clone(), cur);
                        r
                    }
                    Target::Ev(p) => vpath::remove(&mut self.event, p, *compact),
                    Target::Meta(p) => vpath::remove(&mut self.meta, p, *compact),
                    Target::Noop => None,
                };
                Ok(removed.unwrap_or(TV::Null))
            }
            E::Cont(inner, p) => {
                // the whole container expression is evaluated, then the path is read
                let v = self.with_ctx("container_query", |s| s.eval(inner))?;
                Ok(vpath::get(&v, p).cloned().unwrap_or(TV::Null))
            }
            E::Exists(t) => Ok(TV::Bool(match t {
                Target::Var(v, p) => self.vars.get(v).and_then(|x| vpath::get(x, p)).is_some(),
                Target::Ev(p) => vpath::get(&self.event, p).is_some(),
                Target::Meta(p) => vpath::get(&self.meta, p).is_some(),
                Target::Noop => false,
            })),
            E::Call { f, bang: _, args, closure } => {
                self.stats.calls += 1;
                match closure {
                    Some((params, body)) => self.closure_call(f, args, params, body),
                    None => self.delegated_call(f, args),
                }
            }
        }
    }

    fn bin(&mut self, op: BinOp, a: &E, b: &E) -> R {
        match op {
            BinOp::Err => {
                let l = self.with_ctx("coalesce_lhs", |s| s.eval(a));
                match l {
                    Ok(v) => {
                        self.stats.coalesce_left_ok += 1;
                        if has_effect(b) {
                            self.stats.skipped_effect += 1;
                        }
                        Ok(v)
                    }
                    Err(Flow::Err) => {
                        self.stats.coalesce_left_err += 1;
                        if has_effect(b) {
                            self.stats.evaluated_effect += 1;
                        }
                        self.with_ctx("coalesce_rhs", |s| s.eval(b))
                    }
                    Err(other) => Err(other),
                }
            }
            BinOp::Or => {
                let l = decided(self.with_ctx("or_lhs", |s| s.eval(a))?)?;
                match l {
                    TV::Null | TV::Bool(false) => {
                        if has_effect(b) {
                            self.stats.evaluated_effect += 1;
                        }
                        self.with_ctx("or_rhs", |s| s.eval(b))
                    }
                    v => {
                        if has_effect(b) {
                            self.stats.skipped_effect += 1;
                        }
                        Ok(v)
                    }
                }
            }
            BinOp::And => {
                let l = decided(self.with_ctx("and_lhs", |s| s.eval(a))?)?;
                match l {
                    TV::Null | TV::Bool(false) => {
                        if has_effect(b) {
                            self.stats.skipped_effect += 1;
                        }
                        Ok(TV::Bool(false))
                    }
                    TV::Bool(true) => {
                        if has_effect(b) {
                            self.stats.evaluated_effect += 1;
                        }
                        match decided(self.with_ctx("and_rhs", |s| s.eval(b))?)? {
                            TV::Null => Ok(TV::Bool(false)),
                            TV::Bool(r) => Ok(TV::Bool(r)),
                            _ => Err(Flow::Err),
                        }
                    }
                    _ => {
                        // a non-boolean left operand is an error, but only after the right one
                        // has been evaluated
                        self.with_ctx("and_rhs", |s| s.eval(b))?;
                        Err(Flow::Err)
                    }
                }
            }
            _ => {
                let l = self.with_ctx("operand", |s| s.eval(a))?;
                let r = self.with_ctx("operand", |s| s.eval(b))?;
                if contains_default_marker(&l) || contains_default_marker(&r) {
                    return Err(Flow::Unsupported("an open default value flows into an operator".into()));
                }
                if (contains_marker(&l) || contains_marker(&r)) && !(matches!(op, BinOp::Eq | BinOp::Ne) && (l == TV::Null || r == TV::Null)) {
                    return Err(Flow::Unsupported("unmodelled text flows into an operator".into()));
                }
                binop(op, &l, &r).map_err(|()| Flow::Err)
            }
        }
    }

    fn delegated_call(&mut self, f: &str, args: &[(Option<String>, E)]) -> R {
        let mut src = format!("{f}!(");
        let mut fields: BTreeMap<String, TV> = BTreeMap::new();
        for (i, (kw, x)) in args.iter().enumerate() {
            if i > 0 {
                src.push_str(", ");
            }
            if let Some(k) = kw {
                src.push_str(k);
                src.push_str(": ");
            }
            match x {
                // literal arguments stay literals (some parameters only accept literals)
                E::Lit(v) if vrlx::literal(v).is_some() && !v.is_container() => src.push_str(&vrlx::literal(v).unwrap()),
                _ => {
                    let v = self.with_ctx("call_argument", |s| s.eval(x))?;
                    if contains_marker(&v) {
                        return Err(Flow::Unsupported("error text flows into a call".into()));
                    }
                    let name = format!("a{i}");
                    src.push_str(&format!(".{name}"));
                    fields.insert(name, v);
                }
            }
        }
        src.push(')');
        let Some(prog) = delegate_program(&src) else {
            return Err(Flow::Unsupported(format!("delegate `{src}` does not compile")));
        };
        let ev = TV::Object(fields).to_value();
        match vrlx::run(&prog, ev, vrlx::empty_object()).end {
            End::Ok(v) => Ok(TV::from_value(&v)),
            End::Error(_) => Err(Flow::Err),
            other => Err(Flow::Unsupported(format!("delegate `{src}` ended with {other:?}"))),
        }
    }

    fn closure_call(&mut self, f: &str, args: &[(Option<String>, E)], params: &[String], body: &[E]) -> R {
        let Some((_, first)) = args.first() else { return Err(Flow::Unsupported("closure call without collection".into())) };
        let coll = decided(self.with_ctx("call_argument", |s| s.eval(first))?)?;
        // replace_with: remaining arguments (pattern, count) are evaluated before the closure runs
        let mut rw: Option<(String, i64)> = None;
        if f == "replace_with" {
            let mut pattern: Option<String> = None;
            let mut count: i64 = -1;
            for (i, (kw, a)) in args.iter().enumerate().skip(1) {
                let v = decided(self.with_ctx("call_argument", |s| s.eval(a))?)?;
                match (kw.as_deref(), i, v) {
                    (Some("pattern"), _, TV::Regex(p)) | (None, 1, TV::Regex(p)) => pattern = Some(p),
                    (Some("count"), _, TV::Int(n)) | (None, 2, TV::Int(n)) => count = n,
                    other => return Err(Flow::Unsupported(format!("replace_with argument {other:?}"))),
                }
            }
            let Some(p) = pattern else { return Err(Flow::Unsupported("replace_with without pattern".into())) };
            rw = Some((p, count));
        }
        let recursive = false;
        let _ = recursive;
        // save the variables the parameters shadow
        // `_` is a placeholder, not a variable
        let saved: Vec<(String, Option<TV>)> = params.iter().filter(|p| p.as_str() != "_").map(|p| (p.clone(), self.vars.get(p).cloned())).collect();
        if saved.iter().any(|(_, v)| v.is_some()) {
            self.stats.closure_shadowed_outer += 1;
        }
        self.in_closure += 1;
        let result = match &rw {
            Some((pattern, count)) => self.with_ctx("closure", |s| s.replace_with(&coll, pattern, *count, params, body)),
            None => self.with_ctx("closure", |s| s.closure_iterate(f, &coll, params, body)),
        };
        self.in_closure -= 1;
        for (name, old) in saved {
            match old {
                Some(v) => {
                    self.vars.insert(name, v);
                }
                None => {
                    self.vars.remove(&name);
                }
            }
        }
        result
    }

    fn run_body(&mut self, params: &[String], bind: Vec<TV>, body: &[E]) -> R {
        self.stats.closure_iterations += 1;
        for (p, v) in params.iter().zip(bind) {
            if p != "_" {
                self.vars.insert(p.clone(), v);
            }
        }
        match self.block(body) {
            Ok(v) => Ok(v),
            Err(Flow::Ret(v)) => {
                // inside a closure `return` ends the current iteration with that value
                self.stats.closure_returned += 1;
                Ok(v)
            }
            Err(Flow::Err) => {
                self.stats.closure_failed += 1;
                Err(Flow::Err)
            }
            Err(other) => Err(other),
        }
    }

    /// documented semantics of `replace_with`: every non-overlapping match of the pattern (at most
    /// `count` of them; negative = all, 0 = none) is replaced by the string the closure yields for
    /// the match object {"string": whole match, "captures": [groups, null when absent], <named groups>}
    fn replace_with(&mut self, value: &TV, pattern: &str, count: i64, params: &[String], body: &[E]) -> R {
        let hay = match value {
            TV::Str(s) => s,
            TV::Bin(_) => return Err(Flow::Unsupported("replace_with on a string that is not UTF-8".into())),
            _ => return Err(Flow::Err),
        };
        let Ok(re) = regex::Regex::new(pattern) else { return Err(Flow::Unsupported(format!("pattern {pattern:?} does not compile"))) };
        if count == 0 {
            return Ok(value.clone());
        }
        let mut out = String::new();
        let mut last = 0usize;
        let mut done = 0i64;
        for caps in re.captures_iter(hay) {
            if count > 0 && done >= count {
                break;
            }
            let whole = caps.get(0).expect("group 0 always exists");
            let mut obj: BTreeMap<String, TV> = BTreeMap::new();
            obj.insert("string".to_string(), TV::Str(whole.as_str().to_string()));
            let mut groups = Vec::new();
            for (i, name) in re.capture_names().enumerate().skip(1) {
                let v = caps.get(i).map_or(TV::Null, |g| TV::Str(g.as_str().to_string()));
                if let Some(n) = name {
                    obj.insert(n.to_string(), v.clone());
                }
                groups.push(v);
            }
            obj.insert("captures".to_string(), TV::Array(groups));
            let replacement = match decided(self.run_body(params, vec![TV::Object(obj)], body)?)? {
                TV::Str(s) => s,
                _ => return Err(Flow::Err),
            };
            out.push_str(&hay[last..whole.start()]);
            out.push_str(&replacement);
            last = whole.end();
            done += 1;
        }
        out.push_str(&hay[last..]);
        Ok(TV::Str(out))
    }

    fn closure_iterate(&mut self, f: &str, coll: &TV, params: &[String], body: &[E]) -> R {
        match (f, coll) {
            ("for_each", TV::Object(o)) => {
                for (k, v) in o {
                    self.run_body(params, vec![TV::Str(k.clone()), v.clone()], body)?;
                }
                Ok(TV::Null)
            }
            ("for_each", TV::Array(a)) => {
                for (i, v) in a.iter().enumerate() {
                    self.run_body(params, vec![TV::Int(i as i64), v.clone()], body)?;
                }
                Ok(TV::Null)
            }
            ("filter", TV::Object(o)) => {
                let mut out = BTreeMap::new();
                for (k, v) in o {
                    match decided(self.run_body(params, vec![TV::Str(k.clone()), v.clone()], body)?)? {
                        TV::Bool(true) => {
                            out.insert(k.clone(), v.clone());
                        }
                        TV::Bool(false) => {}
                        _ => return Err(Flow::Err),
                    }
                }
                Ok(TV::Object(out))
            }
            ("filter", TV::Array(a)) => {
                let mut out = Vec::new();
                for (i, v) in a.iter().enumerate() {
                    match decided(self.run_body(params, vec![TV::Int(i as i64), v.clone()], body)?)? {
                        TV::Bool(true) => out.push(v.clone()),
                        TV::Bool(false) => {}
                        _ => return Err(Flow::Err),
                    }
                }
                Ok(TV::Array(out))
            }
            ("map_values", TV::Object(o)) => {
                let mut out = BTreeMap::new();
                for (k, v) in o {
                    let nv = self.run_body(params, vec![v.clone()], body)?;
                    out.insert(k.clone(), nv);
                }
                Ok(TV::Object(out))
            }
            ("map_values", TV::Array(a)) => {
                let mut out = Vec::new();
                for v in a {
                    out.push(self.run_body(params, vec![v.clone()], body)?);
                }
                Ok(TV::Array(out))
            }
            ("map_keys", TV::Object(o)) => {
                let mut out = BTreeMap::new();
                for (k, v) in o {
                    match decided(self.run_body(params, vec![TV::Str(k.clone())], body)?)? {
                        TV::Str(nk) => {
                            out.insert(nk, v.clone());
                        }
                        _ => return Err(Flow::Err),
                    }
                }
                Ok(TV::Object(out))
            }
            // a collection of the wrong kind is a runtime error of the call
            ("for_each" | "filter" | "map_values" | "map_keys", _) => Err(Flow::Err),
            _ => Err(Flow::Unsupported(format!("closure function {f} is not modelled"))),
        }
    }
}

/// placeholder the reference stores in `ok` when an infallible assignment fails; resolved by
/// [`resolve_defaults`] from the generator's type hint
pub const DEFAULT_MARK: &str = "\u{1}<default of ok's type>";

pub fn contains_default_marker(v: &TV) -> bool {
    match v {
        TV::Str(s) => s == DEFAULT_MARK,
        TV::Array(a) => a.iter().any(contains_default_marker),
        TV::Object(o) => o.values().any(contains_default_marker),
        _ => false,
    }
}

/// values whose kind decides control flow must not be open defaults
fn decided(v: TV) -> R {
    if contains_default_marker(&v) {
        Err(Flow::Unsupported("an open default value decides control flow".into()))
    } else {
        Ok(v)
    }
}

pub fn contains_marker(v: &TV) -> bool {
    match v {
        TV::Str(s) => s == ERRMSG || s == DEFAULT_MARK,
        TV::Array(a) => a.iter().any(contains_marker),
        TV::Object(o) => o.values().any(contains_marker),
        _ => false,
    }
}

/// Does the reference value `want` describe the real value `got`? An error-message marker
/// matches any string; a default marker matches any documented default value.
pub fn matches(want: &TV, got: &Value) -> bool {
    match (want, got) {
        (TV::Str(s), Value::Bytes(_)) if s == ERRMSG => true,
        (TV::Str(s), g) if s == DEFAULT_MARK => is_documented_default(g),
        (TV::Array(a), Value::Array(b)) => a.len() == b.len() && a.iter().zip(b).all(|(x, y)| matches(x, y)),
        (TV::Object(a), Value::Object(b)) => {
            a.len() == b.len() && a.iter().zip(b.iter()).all(|((k1, x), (k2, y))| k1.as_str() == k2.as_str() && matches(x, y))
        }
        (TV::Float(x), Value::Float(y)) => x.0.to_bits() == y.into_inner().to_bits() || (x.0 == 0.0 && y.into_inner() == 0.0),
        (w, g) => w.to_value() == *g,
    }
}

pub fn is_documented_default(v: &Value) -> bool {
    match v {
        Value::Null => true,
        Value::Bytes(b) => b.is_empty(),
        Value::Integer(i) => *i == 0,
        Value::Float(f) => f.into_inner() == 0.0,
        Value::Boolean(b) => !*b,
        Value::Timestamp(t) => t.timestamp() == 0 && t.timestamp_subsec_nanos() == 0,
        Value::Regex(r) => r.as_str().is_empty(),
        Value::Array(a) => a.is_empty(),
        Value::Object(o) => o.is_empty(),
    }
}

fn wrap(x: i128) -> i64 {
    let m = x.rem_euclid(1i128 << 64);
    if m >= (1i128 << 63) {
        (m - (1i128 << 64)) as i64
    } else {
        m as i64
    }
}

fn num(t: &TV) -> Option<f64> {
    match t {
        TV::Int(i) => Some(*i as f64),
        TV::Float(f) => Some(f.0),
        _ => None,
    }
}

fn fl(x: f64) -> Result<TV, ()> {
    if x.is_nan() {
        Err(())
    } else {
        Ok(TV::float(x))
    }
}

/// value-level binary operators (everything except `&&`, `||`, `??`)
pub fn binop(op: BinOp, a: &TV, b: &TV) -> Result<TV, ()> {
    use TV::{Float, Int, Null, Str};
    if contains_marker(a) || contains_marker(b) {
        // comparisons of the error text with null are the one supported use
        return match (op, a, b) {
            (BinOp::Eq, _, Null) | (BinOp::Eq, Null, _) => Ok(TV::Bool(false)),
            (BinOp::Ne, _, Null) | (BinOp::Ne, Null, _) => Ok(TV::Bool(true)),
            _ => Err(()),
        };
    }
    match op {
        BinOp::Add | BinOp::Sub | BinOp::Mul => match (a, b) {
            (Int(x), Int(y)) => {
                let (x, y) = (i128::from(*x), i128::from(*y));
                Ok(Int(wrap(match op {
                    BinOp::Add => x + y,
                    BinOp::Sub => x - y,
                    _ => x * y,
                })))
            }
            (Int(_) | Float(_), Int(_) | Float(_)) => {
                let (x, y) = (num(a).unwrap(), num(b).unwrap());
                fl(match op {
                    BinOp::Add => x + y,
                    BinOp::Sub => x - y,
                    _ => x * y,
                })
            }
            (Str(x), Str(y)) if op == BinOp::Add => Ok(Str(format!("{x}{y}"))),
            (Null, Str(y)) if op == BinOp::Add => Ok(Str(y.clone())),
            (Str(x), Null) if op == BinOp::Add => Ok(Str(x.clone())),
            (Str(s), Int(n)) | (Int(n), Str(s)) if op == BinOp::Mul => {
                if *n > 10_000 {
                    Err(())
                } else {
                    Ok(Str(s.repeat((*n).max(0) as usize)))
                }
            }
            _ => Err(()),
        },
        BinOp::Div => match (num(a), num(b)) {
            (Some(x), Some(y)) => {
                if y == 0.0 {
                    Err(())
                } else {
                    fl(x / y)
                }
            }
            // a zero divisor is reported before the operand kinds are looked at
            (None, Some(y)) if y == 0.0 => Err(()),
            _ => Err(()),
        },
        BinOp::Eq | BinOp::Ne => {
            let eq = match (a, b) {
                (Int(x), Int(y)) => x == y,
                (Int(_) | Float(_), Int(_) | Float(_)) => num(a).unwrap() == num(b).unwrap(),
                _ => a.to_value() == b.to_value(),
            };
            Ok(TV::Bool(if op == BinOp::Eq { eq } else { !eq }))
        }
        BinOp::Lt | BinOp::Le | BinOp::Gt | BinOp::Ge => {
            use std::cmp::Ordering::{Equal, Greater, Less};
            let ord = match (a, b) {
                (Int(x), Int(y)) => Some(x.cmp(y)),
                (Int(_) | Float(_), Int(_) | Float(_)) => num(a).unwrap().partial_cmp(&num(b).unwrap()),
                (TV::Ts { s: s1, n: n1 }, TV::Ts { s: s2, n: n2 }) => Some((s1, n1).cmp(&(s2, n2))),
                _ => match (a.as_bytes(), b.as_bytes()) {
                    (Some(x), Some(y)) => Some(x.cmp(&y)),
                    _ => None,
                },
            };
            let Some(o) = ord else { return Err(()) };
            Ok(TV::Bool(match op {
                BinOp::Lt => o == Less,
                BinOp::Le => o != Greater,
                BinOp::Gt => o == Greater,
                _ => o != Less,
            }))
        }
        BinOp::Merge => match (a, b) {
            (TV::Object(x), TV::Object(y)) => {
                let mut m = x.clone();
                for (k, v) in y {
                    m.insert(k.clone(), v.clone());
                }
                Ok(TV::Object(m))
            }
            _ => Err(()),
        },
        BinOp::And | BinOp::Or | BinOp::Err => Err(()),
    }
}

/// Outcome of the reference run in the shape of the real one.
#[derive(Debug, Clone, PartialEq)]
pub enum RefEnd {
    Ok(TV),
    Return(TV),
    Error,
    Abort(Option<String>),
    Unsupported(String),
}

pub fn end_of(r: R) -> RefEnd {
    match r {
        Ok(v) => RefEnd::Ok(v),
        Err(Flow::Ret(v)) => RefEnd::Return(v),
        Err(Flow::Err) => RefEnd::Error,
        Err(Flow::Abort(m)) => RefEnd::Abort(m),
        Err(Flow::Unsupported(s)) => RefEnd::Unsupported(s),
    }
}

/// paths in a reference tree where a default marker sits (to read the real default there)
pub fn marker_locations(v: &TV, prefix: &mut Vec<Seg>, out: &mut Vec<Vec<Seg>>) {
    match v {
        TV::Str(s) if s == DEFAULT_MARK => out.push(prefix.clone()),
        TV::Array(a) => {
            for (i, x) in a.iter().enumerate() {
                prefix.push(Seg::I(i as i64));
                marker_locations(x, prefix, out);
                prefix.pop();
            }
        }
        TV::Object(o) => {
            for (k, x) in o {
                prefix.push(Seg::F(k.clone()));
                marker_locations(x, prefix, out);
                prefix.pop();
            }
        }
        _ => {}
    }
}
