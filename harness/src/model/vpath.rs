//! Reference model of value path operations, written from the documentation of
//! `Value::{get, insert, remove}`: functional style over the harness's own value tree.

use crate::gens::path::Seg;
use crate::gens::value::TV;

fn resolve(len: usize, i: i64) -> Option<usize> {
    if i >= 0 {
        let u = i as usize;
        (u < len).then_some(u)
    } else {
        let back = i.unsigned_abs() as usize;
        (back <= len).then(|| len - back)
    }
}

pub fn get<'a>(v: &'a TV, path: &[Seg]) -> Option<&'a TV> {
    let Some((first, rest)) = path.split_first() else { return Some(v) };
    match (v, first) {
        (TV::Object(o), Seg::F(f)) => get(o.get(f)?, rest),
        (TV::Array(a), Seg::I(i)) => get(&a[resolve(a.len(), *i)?], rest),
        _ => None,
    }
}

/// Returns the value after inserting `x` at `path`.
pub fn insert(v: &TV, path: &[Seg], x: &TV) -> TV {
    let Some((first, rest)) = path.split_first() else { return x.clone() };
    match first {
        Seg::F(f) => {
            let mut o = match v {
                TV::Object(o) => o.clone(),
                _ => Default::default(),
            };
            let child = o.get(f).cloned().unwrap_or(TV::Null);
            o.insert(f.clone(), insert(&child, rest, x));
            TV::Object(o)
        }
        Seg::I(i) => {
            let mut a = match v {
                TV::Array(a) => a.clone(),
                _ => Vec::new(),
            };
            if let Some(idx) = resolve(a.len(), *i) {
                a[idx] = insert(&a[idx], rest, x);
            } else if *i >= 0 {
                let idx = *i as usize;
                while a.len() < idx {
                    a.push(TV::Null);
                }
                a.push(insert(&TV::Null, rest, x));
            } else {
                // negative index beyond the length: the new element becomes the first one, the
                // existing elements stay a suffix, nulls fill the gap
                let need = i.unsigned_abs() as usize;
                let mut b = Vec::with_capacity(need);
                b.push(insert(&TV::Null, rest, x));
                while b.len() + a.len() < need {
                    b.push(TV::Null);
                }
                b.extend(a);
                a = b;
            }
            TV::Array(a)
        }
    }
}

/// Removes `path` from `v` in place and returns what was there.
pub fn remove(v: &mut TV, path: &[Seg], prune: bool) -> Option<TV> {
    if path.is_empty() {
        let empty = match v {
            TV::Object(_) => TV::Object(Default::default()),
            TV::Array(_) => TV::Array(Vec::new()),
            _ => TV::Null,
        };
        return Some(std::mem::replace(v, empty));
    }
    remove_in(v, path, prune).map(|(r, _)| r)
}

fn is_empty_collection(v: &TV) -> bool {
    match v {
        TV::Object(o) => o.is_empty(),
        TV::Array(a) => a.is_empty(),
        _ => false,
    }
}

fn remove_in(v: &mut TV, path: &[Seg], prune: bool) -> Option<(TV, bool)> {
    let (first, rest) = path.split_first().expect("non-empty path");
    let removed = match (&mut *v, first) {
        (TV::Object(o), Seg::F(f)) => {
            if rest.is_empty() {
                o.remove(f)?
            } else {
                let (r, child_empty) = remove_in(o.get_mut(f)?, rest, prune)?;
                if prune && child_empty {
                    o.remove(f);
                }
                r
            }
        }
        (TV::Array(a), Seg::I(i)) => {
            let idx = resolve(a.len(), *i)?;
            if rest.is_empty() {
                a.remove(idx)
            } else {
                let (r, child_empty) = remove_in(&mut a[idx], rest, prune)?;
                if prune && child_empty {
                    a.remove(idx);
                }
                r
            }
        }
        _ => return None,
    };
    Some((removed, is_empty_collection(v)))
}

/// every (path, value) location that exists in `v`, root excluded, with indices as written
/// from the front
pub fn locations(v: &TV, prefix: &mut Vec<Seg>, out: &mut Vec<(Vec<Seg>, TV)>) {
    match v {
        TV::Object(o) => {
            for (k, c) in o {
                prefix.push(Seg::F(k.clone()));
                out.push((prefix.clone(), c.clone()));
                locations(c, prefix, out);
                prefix.pop();
            }
        }
        TV::Array(a) => {
            for (i, c) in a.iter().enumerate() {
                prefix.push(Seg::I(i as i64));
                out.push((prefix.clone(), c.clone()));
                locations(c, prefix, out);
                prefix.pop();
            }
        }
        _ => {}
    }
}
