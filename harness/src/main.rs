//! vcheck — property-based checks of vectordotdev/vrl (see /verif/DESIGN.md).

#![allow(clippy::too_many_lines, clippy::type_complexity, dead_code)]

mod engine;
mod gens;
mod model;
mod props;
mod vrlx;

use std::path::PathBuf;

use engine::Tier;

fn usage() -> ! {
    eprintln!("usage: vcheck run <ID> [quick|thorough] [--replay FILE] [--scale X] [--sub NAME] [--threads N]\n       vcheck list");
    std::process::exit(2);
}

fn main() {
    let args: Vec<String> = std::env::args().skip(1).collect();
    if args.is_empty() {
        usage();
    }
    match args[0].as_str() {
        "list" => {
            for p in props::all() {
                println!("{}", p.id);
            }
        }
        "eval" => {
            // vcheck eval '<program>' ['<json event>']  -- developer aid
            let src = args.get(1).cloned().unwrap_or_else(|| usage());
            let ev: vrl::value::Value = args
                .get(2)
                .map(|j| serde_json::from_str::<serde_json::Value>(j).expect("event must be JSON").into())
                .unwrap_or_else(vrlx::empty_object);
            match vrlx::compile(&src) {
                Err(d) => println!("REJECTED: {}", vrlx::diag_summary(&d)),
                Ok(res) => {
                    for w in res.warnings.iter() {
                        println!("warning E{}: {}", w.code, w.message);
                    }
                    let ti = res.program.final_type_info();
                    println!("type: {} fallible={} returns={}", ti.result.kind(), ti.result.is_fallible(), ti.result.returns());
                    let out = vrlx::run(&res.program, ev, vrlx::empty_object());
                    println!("end: {:?}", out.end);
                    println!("event: {}  metadata: {}", out.event, out.metadata);
                    println!("hook events: {:?}", vrl::compiler::verif::take());
                }
            }
        }
        "show" => {
            // vcheck show <replay.json>: print the VRL source of a program case
            let text = std::fs::read_to_string(args.get(1).cloned().unwrap_or_else(|| usage())).expect("read");
            let rf: engine::ReplayFile = serde_json::from_str(&text).expect("parse");
            match serde_json::from_value::<gens::proggen::ProgCase>(rf.case.clone()) {
                Ok(c) => println!("{}\n# event: {}\n# metadata: {}", gens::prog::program_src(&c.prog), c.event.to_value(), c.meta.to_value()),
                Err(_) => println!("{}", serde_json::to_string_pretty(&rf.case).unwrap()),
            }
        }
        "gen" => {
            // vcheck gen <needle> <Ecode|ok|any> [n]: developer aid — print generated programs (closure-heavy
            // preset, pseudo-random bytes) whose source contains <needle> and whose compilation
            // ends with the given diagnostic code (or is accepted)
            let needle = args.get(1).cloned().unwrap_or_default();
            let want = args.get(2).cloned().unwrap_or_else(|| "any".to_string());
            let n: usize = args.get(3).and_then(|s| s.parse().ok()).unwrap_or(3);
            let preset = gens::proggen::Preset { closures: 12, shadowing: true, returns: 3, coalesce: 2, ..gens::proggen::BASE };
            let mut x: u64 = 0x9e37_79b9_7f4a_7c15;
            let mut shown = 0;
            for _ in 0..200_000 {
                let bytes: Vec<u8> = (0..300)
                    .map(|_| {
                        x ^= x << 13;
                        x ^= x >> 7;
                        x ^= x << 17;
                        (x >> 24) as u8
                    })
                    .collect();
                let case = gens::proggen::build(&bytes, preset);
                let src = gens::prog::program_src(&case.prog);
                if !src.contains(&needle) {
                    continue;
                }
                let verdict = match vrlx::compile(&src) {
                    Ok(_) => "ok".to_string(),
                    Err(d) => format!("E{}", vrlx::diag_codes(&d).first().copied().unwrap_or(0)),
                };
                if want == "any" || want == verdict {
                    println!("--- {verdict}\n{src}");
                    if let Err(d) = vrlx::compile(&src) {
                        println!("# {}", vrlx::diag_summary(&d));
                    }
                    shown += 1;
                    if shown >= n {
                        break;
                    }
                }
            }
        }
        "describe" => {
            let v: Vec<serde_json::Value> =
                props::all().iter().map(|p| serde_json::json!({"id": p.id, "rule": p.rule, "note": p.note})).collect();
            println!("{}", serde_json::to_string_pretty(&v).unwrap());
        }
        "--worker" => {
            engine::workers::worker_main();
        }
        "run" => {
            if args.len() < 2 {
                usage();
            }
            let id = args[1].clone();
            let mut tier = match std::env::var("VERIF_TIER").ok().as_deref() {
                Some("thorough") => Tier::Thorough,
                _ => Tier::Quick,
            };
            let mut replay: Option<PathBuf> = None;
            let mut scale = 1.0f64;
            let mut only_sub = None;
            let mut threads = std::thread::available_parallelism().map(|n| n.get()).unwrap_or(16).min(16);
            let mut i = 2;
            while i < args.len() {
                match args[i].as_str() {
                    "quick" | "--quick" => tier = Tier::Quick,
                    "thorough" | "--thorough" => tier = Tier::Thorough,
                    "--replay" => {
                        i += 1;
                        replay = Some(PathBuf::from(args.get(i).cloned().unwrap_or_else(|| usage())));
                    }
                    "--scale" => {
                        i += 1;
                        scale = args.get(i).and_then(|s| s.parse().ok()).unwrap_or_else(|| usage());
                    }
                    "--sub" => {
                        i += 1;
                        only_sub = Some(args.get(i).cloned().unwrap_or_else(|| usage()));
                    }
                    "--threads" => {
                        i += 1;
                        threads = args.get(i).and_then(|s| s.parse().ok()).unwrap_or_else(|| usage());
                    }
                    _ => usage(),
                }
                i += 1;
            }
            let seed: u64 = std::env::var("VERIF_SEED").ok().and_then(|s| s.trim().parse::<i64>().ok()).map(|v| v as u64).unwrap_or(1);
            let Some(p) = props::all().into_iter().find(|p| p.id == id) else {
                eprintln!("unknown property {id}");
                std::process::exit(2);
            };
            let code = engine::drive(p.id, tier, seed, threads, scale, only_sub, replay, p.note, &p.body);
            std::process::exit(code);
        }
        _ => usage(),
    }
}
