//! Quiet panic hook that remembers the last panic's location and message per thread.

use std::any::Any;
use std::cell::RefCell;

thread_local! {
    static LAST: RefCell<Option<(String, String)>> = const { RefCell::new(None) };
}

pub fn install_quiet_hook() {
    std::panic::set_hook(Box::new(|info| {
        let loc = info
            .location()
            .map(|l| format!("{}:{}", shorten(l.file()), l.line()))
            .unwrap_or_else(|| "unknown".to_string());
        let msg = if let Some(s) = info.payload().downcast_ref::<&str>() {
            (*s).to_string()
        } else if let Some(s) = info.payload().downcast_ref::<String>() {
            s.clone()
        } else {
            "non-string panic payload".to_string()
        };
        if std::env::var_os("VCHECK_SHOW_PANICS").is_some() {
            eprintln!("panic at {loc}: {msg}");
        }
        LAST.with(|l| *l.borrow_mut() = Some((loc, msg)));
    }));
}

fn shorten(file: &str) -> String {
    // keep paths stable across checkouts: strip everything up to and including "/repo/" or the
    // cargo registry prefix
    if let Some(i) = file.find("/repo/") {
        return file[i + 6..].to_string();
    }
    if let Some(i) = file.find("/registry/src/") {
        let rest = &file[i + 14..];
        if let Some(j) = rest.find('/') {
            return rest[j + 1..].to_string();
        }
    }
    file.to_string()
}

pub fn clear_last() {
    LAST.with(|l| *l.borrow_mut() = None);
}

pub fn last() -> Option<(String, String)> {
    LAST.with(|l| l.borrow().clone())
}

pub fn payload_str(p: &Box<dyn Any + Send>) -> String {
    if let Some(s) = p.downcast_ref::<&str>() {
        (*s).to_string()
    } else if let Some(s) = p.downcast_ref::<String>() {
        s.clone()
    } else {
        "non-string panic payload".to_string()
    }
}
