//! Seeded, sharded proptest driver with evidence, replay and known-finding plumbing.
//!
//! Every property module registers one or more *sub-checks* through [`Run::sub`]: a proptest
//! strategy for a serialisable case type plus an oracle `Fn(&Case) -> V`. The same registration
//! serves the search tier (generated cases, shrinking), the replay tier (a saved case is
//! deserialised and pushed through the same oracle) and the known-finding protocol.

use std::collections::{BTreeMap, HashSet};
use std::fmt::Debug;
use std::panic::{catch_unwind, AssertUnwindSafe};
use std::path::{Path, PathBuf};
use std::sync::atomic::{AtomicBool, AtomicU64, Ordering};
use std::sync::Mutex;
use std::time::Instant;

use proptest::strategy::Strategy;
use proptest::test_runner::{Config, RngAlgorithm, TestCaseError, TestError, TestRng, TestRunner};
use serde::de::DeserializeOwned;
use serde::{Deserialize, Serialize};

pub mod panics;
pub mod workers;

/// Root of the verification tree (evidence/, replays/, known_findings.json). `/verif` unless
/// `VCHECK_ROOT` is set (used by private development copies only).
pub fn verif_root() -> PathBuf {
    std::env::var_os("VCHECK_ROOT").map(PathBuf::from).unwrap_or_else(|| PathBuf::from("/verif"))
}

#[derive(Clone, Copy, PartialEq, Eq, Debug)]
pub enum Tier {
    Quick,
    Thorough,
}

impl Tier {
    pub fn name(self) -> &'static str {
        match self {
            Tier::Quick => "quick",
            Tier::Thorough => "thorough",
        }
    }
}

/// Verdict of one oracle evaluation.
#[derive(Debug, Clone)]
pub struct V {
    pub outcome: Outcome,
    pub nontrivial: bool,
    pub classes: Vec<&'static str>,
}

#[derive(Debug, Clone)]
pub enum Outcome {
    Pass,
    /// The generated case is outside the property's domain (counted, not an evaluation).
    Discard(&'static str),
    /// The generated case falls into a class excluded because of an open known finding.
    Excluded(&'static str),
    Fail { msg: String, sig: Option<String> },
}

impl V {
    pub fn pass() -> V {
        V { outcome: Outcome::Pass, nontrivial: false, classes: Vec::new() }
    }
    pub fn discard(why: &'static str) -> V {
        V { outcome: Outcome::Discard(why), nontrivial: false, classes: Vec::new() }
    }
    pub fn excluded(why: &'static str) -> V {
        V { outcome: Outcome::Excluded(why), nontrivial: false, classes: Vec::new() }
    }
    pub fn fail(msg: impl Into<String>) -> V {
        V { outcome: Outcome::Fail { msg: msg.into(), sig: None }, nontrivial: false, classes: Vec::new() }
    }
    pub fn fail_sig(sig: impl Into<String>, msg: impl Into<String>) -> V {
        V {
            outcome: Outcome::Fail { msg: msg.into(), sig: Some(sig.into()) },
            nontrivial: false,
            classes: Vec::new(),
        }
    }
    pub fn nontrivial(mut self, b: bool) -> V {
        self.nontrivial = b;
        self
    }
    pub fn class(mut self, c: &'static str) -> V {
        self.classes.push(c);
        self
    }
    pub fn class_if(mut self, cond: bool, c: &'static str) -> V {
        if cond {
            self.classes.push(c);
        }
        self
    }
    pub fn is_fail(&self) -> bool {
        matches!(self.outcome, Outcome::Fail { .. })
    }
}

#[derive(Debug, Clone, Serialize, Deserialize)]
pub struct KnownFinding {
    pub property: String,
    pub id: String,
    /// "open" or "fixed"
    pub status: String,
    #[serde(default)]
    pub commit: Option<String>,
    pub what: String,
    #[serde(default)]
    pub signature: Option<String>,
    #[serde(default)]
    pub replay: Option<String>,
    #[serde(default)]
    pub excluded_by: Option<String>,
}

#[derive(Debug, Clone, Serialize, Deserialize)]
pub struct ReplayFile {
    pub property: String,
    pub sub: String,
    pub case: serde_json::Value,
    #[serde(default)]
    pub note: Option<String>,
}

pub fn load_known_findings() -> Vec<KnownFinding> {
    let p = verif_root().join("known_findings.json");
    match std::fs::read_to_string(&p) {
        Ok(s) => match serde_json::from_str::<Vec<KnownFinding>>(&s) {
            Ok(v) => v,
            Err(e) => {
                eprintln!("harness error: cannot parse {}: {e}", p.display());
                std::process::exit(2);
            }
        },
        Err(_) => Vec::new(),
    }
}

#[derive(Default, Serialize, Clone)]
pub struct SubReport {
    pub name: String,
    pub cases_requested: u64,
    pub evaluations: u64,
    pub nontrivial: u64,
    pub distinct_nontrivial: u64,
    pub distinct_capped: bool,
    pub discarded: BTreeMap<String, u64>,
    pub excluded_by_known_finding: BTreeMap<String, u64>,
    pub known_signature_hits: BTreeMap<String, u64>,
    pub classes: BTreeMap<String, u64>,
    pub samples: Vec<serde_json::Value>,
    pub violations: u64,
    pub wall_s: f64,
}

enum Mode {
    Search,
    Replay(ReplayFile),
}

pub struct ReplayResult {
    pub matched: bool,
    pub verdict: Option<V>,
}

pub struct Run {
    pub prop: &'static str,
    pub tier: Tier,
    pub seed: u64,
    pub threads: usize,
    /// multiplies every case count (for experiments; 1.0 in registered commands)
    pub scale: f64,
    /// restrict the search tier to sub-checks whose name contains this
    pub only_sub: Option<String>,
    mode: Mode,
    pub known: Vec<KnownFinding>,
    pub subs: Vec<SubReport>,
    pub violation_lines: Vec<String>,
    pub known_lines: Vec<String>,
    pub notes: Vec<String>,
    pub extra: BTreeMap<String, serde_json::Value>,
    replay_result: ReplayResult,
    pub inconclusive: Vec<String>,
}

const DISTINCT_CAP_PER_SHARD: usize = 1_500_000;

fn splitmix(mut z: u64) -> u64 {
    z = z.wrapping_add(0x9E37_79B9_7F4A_7C15);
    z = (z ^ (z >> 30)).wrapping_mul(0xBF58_476D_1CE4_E5B9);
    z = (z ^ (z >> 27)).wrapping_mul(0x94D0_49BB_1331_11EB);
    z ^ (z >> 31)
}

pub fn fnv64(bytes: &[u8]) -> u64 {
    let mut h: u64 = 0xcbf2_9ce4_8422_2325;
    for b in bytes {
        h ^= u64::from(*b);
        h = h.wrapping_mul(0x0000_0100_0000_01B3);
    }
    h
}

struct HashWriter(u64);
impl std::io::Write for HashWriter {
    fn write(&mut self, buf: &[u8]) -> std::io::Result<usize> {
        for b in buf {
            self.0 ^= u64::from(*b);
            self.0 = self.0.wrapping_mul(0x0000_0100_0000_01B3);
        }
        Ok(buf.len())
    }
    fn flush(&mut self) -> std::io::Result<()> {
        Ok(())
    }
}

fn case_hash<C: Serialize>(c: &C) -> u64 {
    let mut w = HashWriter(0xcbf2_9ce4_8422_2325);
    let _ = serde_json::to_writer(&mut w, c);
    w.0
}

pub fn rng_for(seed: u64, prop: &str, sub: &str, shard: u64) -> TestRng {
    let mut s = splitmix(seed ^ fnv64(prop.as_bytes()));
    s = splitmix(s ^ fnv64(sub.as_bytes()));
    s = splitmix(s ^ shard.wrapping_mul(0x1000_0000_01B3));
    let mut bytes = [0u8; 32];
    for i in 0..4 {
        s = splitmix(s);
        bytes[i * 8..(i + 1) * 8].copy_from_slice(&s.to_le_bytes());
    }
    TestRng::from_seed(RngAlgorithm::ChaCha, &bytes)
}

struct ShardOut<C> {
    evaluations: u64,
    nontrivial: u64,
    distinct: HashSet<u64>,
    capped: bool,
    discarded: BTreeMap<&'static str, u64>,
    excluded: BTreeMap<&'static str, u64>,
    known_hits: BTreeMap<String, u64>,
    classes: BTreeMap<&'static str, u64>,
    samples: Vec<C>,
    failure: Option<(C, String)>,
    harness_error: Option<String>,
}

impl Run {
    pub fn new(prop: &'static str, tier: Tier, seed: u64, threads: usize) -> Run {
        let known = load_known_findings().into_iter().filter(|k| k.property == prop).collect();
        Run {
            prop,
            tier,
            seed,
            threads,
            scale: 1.0,
            only_sub: None,
            mode: Mode::Search,
            known,
            subs: Vec::new(),
            violation_lines: Vec::new(),
            known_lines: Vec::new(),
            notes: Vec::new(),
            extra: BTreeMap::new(),
            replay_result: ReplayResult { matched: false, verdict: None },
            inconclusive: Vec::new(),
        }
    }

    pub fn is_replay(&self) -> bool {
        matches!(self.mode, Mode::Replay(_))
    }

    /// True when an *open* known finding asks the generators to leave out class `switch`.
    pub fn excluded(&self, switch: &str) -> bool {
        // replays always go through the full oracle
        if self.is_replay() {
            return false;
        }
        self.known
            .iter()
            .any(|k| k.status == "open" && k.excluded_by.as_deref() == Some(switch))
    }

    fn open_signatures(&self) -> Vec<String> {
        self.known
            .iter()
            .filter(|k| k.status == "open")
            .filter_map(|k| k.signature.clone())
            .collect()
    }

    pub fn cases(&self, quick: u64, thorough: u64) -> u64 {
        let n = match self.tier {
            Tier::Quick => quick,
            Tier::Thorough => thorough,
        };
        ((n as f64 * self.scale).ceil() as u64).max(1)
    }

    /// Register and execute a sub-check.
    pub fn sub<C, S, G, F>(&mut self, name: &str, quick: u64, thorough: u64, strat: G, check: F)
    where
        C: Debug + Clone + Serialize + DeserializeOwned + Send,
        S: Strategy<Value = C>,
        G: Fn() -> S + Sync,
        F: Fn(&C) -> V + Sync,
    {
        match &self.mode {
            Mode::Replay(rf) => {
                if rf.sub != name {
                    return;
                }
                let case: C = match serde_json::from_value(rf.case.clone()) {
                    Ok(c) => c,
                    Err(e) => {
                        eprintln!("harness error: replay case for {}/{} does not deserialise: {e}", self.prop, name);
                        std::process::exit(2);
                    }
                };
                let v = guarded(&check, &case);
                self.replay_result = ReplayResult { matched: true, verdict: Some(v) };
            }
            Mode::Search => {
                if let Some(only) = &self.only_sub {
                    if !name.contains(only.as_str()) {
                        return;
                    }
                }
                let n = self.cases(quick, thorough);
                self.search(name, n, &strat, &check);
            }
        }
    }

    fn search<C, S, G, F>(&mut self, name: &str, n: u64, strat: &G, check: &F)
    where
        C: Debug + Clone + Serialize + DeserializeOwned + Send,
        S: Strategy<Value = C>,
        G: Fn() -> S + Sync,
        F: Fn(&C) -> V + Sync,
    {
        let t0 = Instant::now();
        let shards = (self.threads as u64).min(n).max(1);
        let per_shard = n.div_ceil(shards);
        let open_sigs = self.open_signatures();
        let prop = self.prop;
        let seed = self.seed;
        let done = AtomicBool::new(false);
        let current: Vec<Mutex<Option<(C, Instant)>>> = (0..shards).map(|_| Mutex::new(None)).collect();
        let progress = AtomicU64::new(0);

        let outs: Vec<ShardOut<C>> = std::thread::scope(|scope| {
            // watchdog: a case that runs for more than 600 s makes the run inconclusive (exit 2)
            let wd = scope.spawn(|| {
                let mut ticks = 0u64;
                while !done.load(Ordering::Relaxed) {
                    std::thread::sleep(std::time::Duration::from_millis(250));
                    ticks += 1;
                    if ticks % 8 != 0 {
                        continue;
                    }
                    for (i, slot) in current.iter().enumerate() {
                        let g = slot.lock().unwrap();
                        if let Some((c, since)) = &*g {
                            if since.elapsed().as_secs() > 600 {
                                let path = write_replay(prop, name, c, "hang", Some("case exceeded the 600 s watchdog"));
                                println!(
                                    "INCONCLUSIVE property={prop} sub={name} shard={i}: a case ran for more than 600 s (saved to {})",
                                    path.display()
                                );
                                std::process::exit(2);
                            }
                        }
                    }
                }
            });
            let handles: Vec<_> = (0..shards)
                .map(|shard| {
                    let open_sigs = &open_sigs;
                    let current = &current;
                    let progress = &progress;
                    std::thread::Builder::new()
                        .stack_size(256 * 1024 * 1024)
                        .spawn_scoped(scope, move || {
                            run_shard(prop, name, seed, shard, per_shard, strat, check, open_sigs, &current[shard as usize], progress)
                        })
                        .expect("spawn shard")
                })
                .collect();
            // a panic outside the guarded oracle (e.g. inside a strategy) must not leave the
            // watchdog waiting: collect what finished, then report the harness error (exit 2)
            let joined: Vec<_> = handles.into_iter().map(|h| h.join()).collect();
            done.store(true, Ordering::Relaxed);
            let _ = wd.join();
            let mut outs = Vec::new();
            for j in joined {
                match j {
                    Ok(o) => outs.push(o),
                    Err(_) => {
                        let (loc, msg) = panics::last().unwrap_or_else(|| ("unknown".into(), "panic".into()));
                        println!("INCONCLUSIVE property={prop} sub={name}: the harness itself panicked outside an oracle ({loc}: {msg})");
                        std::process::exit(2);
                    }
                }
            }
            outs
        });

        let mut rep = SubReport { name: name.to_string(), cases_requested: n, ..Default::default() };
        let mut distinct: HashSet<u64> = HashSet::new();
        let mut samples: Vec<C> = Vec::new();
        for (i, o) in outs.into_iter().enumerate() {
            rep.evaluations += o.evaluations;
            rep.nontrivial += o.nontrivial;
            rep.distinct_capped |= o.capped;
            distinct.extend(o.distinct);
            for (k, v) in o.discarded {
                *rep.discarded.entry(k.to_string()).or_default() += v;
            }
            for (k, v) in o.excluded {
                *rep.excluded_by_known_finding.entry(k.to_string()).or_default() += v;
            }
            for (k, v) in o.known_hits {
                *rep.known_signature_hits.entry(k).or_default() += v;
            }
            for (k, v) in o.classes {
                *rep.classes.entry(k.to_string()).or_default() += v;
            }
            if i < 3 {
                samples.extend(o.samples.into_iter().take(2));
            }
            if let Some(e) = o.harness_error {
                self.inconclusive.push(format!("{name}: {e}"));
            }
            if let Some((case, msg)) = o.failure {
                rep.violations += 1;
                if self.violation_lines.len() < 8 {
                    let path = write_replay(prop, name, &case, &format!("s{seed}-{i}"), Some(&msg));
                    self.violation_lines.push(format!(
                        "VIOLATION property={} replay={} sub={} :: {}",
                        prop,
                        path.display(),
                        name,
                        one_line(&msg, 400)
                    ));
                }
            }
        }
        rep.distinct_nontrivial = distinct.len() as u64;
        rep.samples = samples.iter().map(|c| serde_json::to_value(c).unwrap_or(serde_json::Value::Null)).collect();
        rep.wall_s = t0.elapsed().as_secs_f64();
        for (sig, _) in &rep.known_signature_hits {
            if let Some(k) = self.known.iter().find(|k| k.signature.as_deref() == Some(sig.as_str())) {
                let line = format!("KNOWN-FINDING: property={} {} [{}]", self.prop, k.what, k.id);
                if !self.known_lines.contains(&line) {
                    self.known_lines.push(line);
                }
            }
        }
        self.subs.push(rep);
    }

    /// Register a sub-check that has no search tier: it only serves replay files (pinned
    /// source-level reproductions of known findings).
    pub fn replay_only<C, F>(&mut self, name: &str, check: F)
    where
        C: Debug + Clone + Serialize + DeserializeOwned + Send,
        F: Fn(&C) -> V + Sync,
    {
        if let Mode::Replay(rf) = &self.mode {
            if rf.sub != name {
                return;
            }
            let case: C = match serde_json::from_value(rf.case.clone()) {
                Ok(c) => c,
                Err(e) => {
                    eprintln!("harness error: replay case for {}/{} does not deserialise: {e}", self.prop, name);
                    std::process::exit(2);
                }
            };
            let v = guarded(&check, &case);
            self.replay_result = ReplayResult { matched: true, verdict: Some(v) };
        }
    }

    /// Register and execute an exhaustive sub-check over an explicit finite list of cases
    /// (no sampling, no shrinking: every listed case is evaluated once).
    pub fn enumerate<C, F>(&mut self, name: &str, cases: Vec<C>, check: F)
    where
        C: Debug + Clone + Serialize + DeserializeOwned + Send + Sync,
        F: Fn(&C) -> V + Sync,
    {
        match &self.mode {
            Mode::Replay(rf) => {
                if rf.sub != name {
                    return;
                }
                let case: C = match serde_json::from_value(rf.case.clone()) {
                    Ok(c) => c,
                    Err(e) => {
                        eprintln!("harness error: replay case for {}/{} does not deserialise: {e}", self.prop, name);
                        std::process::exit(2);
                    }
                };
                let v = guarded(&check, &case);
                self.replay_result = ReplayResult { matched: true, verdict: Some(v) };
            }
            Mode::Search => {
                if let Some(only) = &self.only_sub {
                    if !name.contains(only.as_str()) {
                        return;
                    }
                }
                let t0 = Instant::now();
                let open_sigs = self.open_signatures();
                let shards = self.threads.max(1);
                let chunk = cases.len().div_ceil(shards).max(1);
                let results: Vec<Vec<(usize, V)>> = std::thread::scope(|scope| {
                    let hs: Vec<_> = cases
                        .chunks(chunk)
                        .enumerate()
                        .map(|(ci, part)| {
                            let check = &check;
                            scope.spawn(move || part.iter().enumerate().map(|(i, c)| (ci * chunk + i, guarded(check, c))).collect::<Vec<_>>())
                        })
                        .collect();
                    hs.into_iter().map(|h| h.join().expect("enumerate shard")).collect()
                });
                let mut rep = SubReport { name: name.to_string(), cases_requested: cases.len() as u64, ..Default::default() };
                let mut distinct: HashSet<u64> = HashSet::new();
                for (i, v) in results.into_iter().flatten() {
                    match v.outcome {
                        Outcome::Pass => {
                            rep.evaluations += 1;
                            for c in &v.classes {
                                *rep.classes.entry((*c).to_string()).or_default() += 1;
                            }
                            if v.nontrivial {
                                rep.nontrivial += 1;
                                distinct.insert(case_hash(&cases[i]));
                                if rep.samples.len() < 3 {
                                    rep.samples.push(serde_json::to_value(&cases[i]).unwrap_or(serde_json::Value::Null));
                                }
                            }
                        }
                        Outcome::Discard(w) => *rep.discarded.entry(w.to_string()).or_default() += 1,
                        Outcome::Excluded(w) => *rep.excluded_by_known_finding.entry(w.to_string()).or_default() += 1,
                        Outcome::Fail { msg, sig } => {
                            rep.evaluations += 1;
                            if let Some(s) = sig.as_ref().filter(|s| open_sigs.contains(s)) {
                                *rep.known_signature_hits.entry(s.clone()).or_default() += 1;
                                continue;
                            }
                            rep.violations += 1;
                            if self.violation_lines.len() < 8 {
                                let path = write_replay(self.prop, name, &cases[i], &format!("enum-{i}"), Some(&msg));
                                self.violation_lines.push(format!(
                                    "VIOLATION property={} replay={} sub={} :: {}",
                                    self.prop,
                                    path.display(),
                                    name,
                                    one_line(&msg, 400)
                                ));
                            }
                        }
                    }
                }
                rep.distinct_nontrivial = distinct.len() as u64;
                rep.wall_s = t0.elapsed().as_secs_f64();
                for (sig, _) in &rep.known_signature_hits {
                    if let Some(k) = self.known.iter().find(|k| k.signature.as_deref() == Some(sig.as_str())) {
                        let line = format!("KNOWN-FINDING: property={} {} [{}]", self.prop, k.what, k.id);
                        if !self.known_lines.contains(&line) {
                            self.known_lines.push(line);
                        }
                    }
                }
                self.notes.push(format!("sub-check {name} enumerated its finite case list exhaustively ({} cases)", cases.len()));
                self.subs.push(rep);
            }
        }
    }

    /// Replay one file through the property's registration function.
    pub fn replay_file(&mut self, rf: ReplayFile, body: &dyn Fn(&mut Run)) -> ReplayResult {
        let prev = std::mem::replace(&mut self.mode, Mode::Replay(rf));
        self.replay_result = ReplayResult { matched: false, verdict: None };
        body(self);
        self.mode = prev;
        std::mem::replace(&mut self.replay_result, ReplayResult { matched: false, verdict: None })
    }
}

fn one_line(s: &str, max: usize) -> String {
    let mut t: String = s.chars().map(|c| if c == '\n' || c == '\r' { ' ' } else { c }).collect();
    if t.chars().count() > max {
        t = t.chars().take(max).collect::<String>() + "…";
    }
    t
}

pub fn guarded<C, F: Fn(&C) -> V>(check: &F, case: &C) -> V {
    panics::clear_last();
    match catch_unwind(AssertUnwindSafe(|| check(case))) {
        Ok(v) => v,
        Err(payload) => {
            let (loc, msg) = panics::last().unwrap_or_else(|| ("unknown".to_string(), panics::payload_str(&payload)));
            V::fail_sig(format!("panic@{loc}"), format!("panic at {loc}: {msg}"))
        }
    }
}

#[allow(clippy::too_many_arguments)]
fn run_shard<C, S, G, F>(
    prop: &str,
    name: &str,
    seed: u64,
    shard: u64,
    cases: u64,
    strat: &G,
    check: &F,
    open_sigs: &[String],
    current: &Mutex<Option<(C, Instant)>>,
    _progress: &AtomicU64,
) -> ShardOut<C>
where
    C: Debug + Clone + Serialize + DeserializeOwned + Send,
    S: Strategy<Value = C>,
    G: Fn() -> S + Sync,
    F: Fn(&C) -> V + Sync,
{
    let cfg = Config {
        cases: u32::try_from(cases).unwrap_or(u32::MAX),
        failure_persistence: None,
        max_shrink_iters: 1500,
        max_global_rejects: 1_000_000,
        max_local_rejects: 1_000_000,
        verbose: 0,
        ..Config::default()
    };
    let mut runner = TestRunner::new_with_rng(cfg, rng_for(seed, prop, name, shard));
    let strategy = strat();
    let mut out = ShardOut {
        evaluations: 0,
        nontrivial: 0,
        distinct: HashSet::new(),
        capped: false,
        discarded: BTreeMap::new(),
        excluded: BTreeMap::new(),
        known_hits: BTreeMap::new(),
        classes: BTreeMap::new(),
        samples: Vec::new(),
        failure: None,
        harness_error: None,
    };
    let failed = std::cell::Cell::new(false);
    let seen = std::cell::Cell::new(0u64);
    let cell = std::cell::RefCell::new(&mut out);
    // developer aid: with VCHECK_TRACE_DIR set, the case about to be evaluated is written to
    // <dir>/<sub>-<shard>.json first (to find a case that kills the process, e.g. by memory)
    let trace_dir = std::env::var("VCHECK_TRACE_DIR").ok();
    let result = runner.run(&strategy, |case: C| {
        if let Some(dir) = &trace_dir {
            let _ = std::fs::write(
                PathBuf::from(dir).join(format!("{name}-{shard}.json")),
                serde_json::to_string(&ReplayFile { property: prop.to_string(), sub: name.to_string(), case: serde_json::to_value(&case).unwrap_or_default(), note: Some("trace".to_string()) }).unwrap_or_default(),
            );
        }
        *current.lock().unwrap() = Some((case.clone(), Instant::now()));
        let v = guarded(check, &case);
        *current.lock().unwrap() = None;
        if failed.get() {
            // shrinking: only the verdict matters
            return match v.outcome {
                Outcome::Fail { msg, sig } => {
                    if sig.as_ref().is_some_and(|s| open_sigs.contains(s)) {
                        Ok(())
                    } else {
                        Err(TestCaseError::fail(msg))
                    }
                }
                _ => Ok(()),
            };
        }
        seen.set(seen.get() + 1);
        let mut guard = cell.borrow_mut();
        let out = &mut **guard;
        match v.outcome {
            Outcome::Pass => {
                out.evaluations += 1;
                for c in &v.classes {
                    *out.classes.entry(c).or_default() += 1;
                }
                if v.nontrivial {
                    out.nontrivial += 1;
                    if out.distinct.len() < DISTINCT_CAP_PER_SHARD {
                        out.distinct.insert(case_hash(&case));
                    } else {
                        out.capped = true;
                    }
                    if out.samples.len() < 2 || (seen.get() % 9973 == 0 && out.samples.len() < 4) {
                        out.samples.push(case);
                    }
                }
                Ok(())
            }
            Outcome::Discard(why) => {
                *out.discarded.entry(why).or_default() += 1;
                Ok(())
            }
            Outcome::Excluded(why) => {
                *out.excluded.entry(why).or_default() += 1;
                Ok(())
            }
            Outcome::Fail { msg, sig } => {
                out.evaluations += 1;
                if let Some(s) = sig.as_ref().filter(|s| open_sigs.contains(s)) {
                    *out.known_hits.entry(s.clone()).or_default() += 1;
                    return Ok(());
                }
                failed.set(true);
                Err(TestCaseError::fail(msg))
            }
        }
    });
    drop(cell);
    match result {
        Ok(()) => {}
        Err(TestError::Fail(reason, case)) => {
            // re-evaluate the minimal case to get its own message
            let v = guarded(check, &case);
            let msg = match v.outcome {
                Outcome::Fail { msg, sig } => match sig {
                    Some(s) => format!("[{s}] {msg}"),
                    None => msg,
                },
                _ => format!("{reason} (minimal case no longer fails on re-evaluation: flaky oracle?)"),
            };
            out.failure = Some((case, msg));
        }
        Err(TestError::Abort(reason)) => {
            out.harness_error = Some(format!("proptest aborted: {reason}"));
        }
    }
    out
}

pub fn write_replay<C: Serialize>(prop: &str, sub: &str, case: &C, tag: &str, note: Option<&str>) -> PathBuf {
    let dir = verif_root().join("replays").join("found");
    let _ = std::fs::create_dir_all(&dir);
    let path = dir.join(format!("{prop}-{sub}-{tag}.json"));
    let rf = ReplayFile {
        property: prop.to_string(),
        sub: sub.to_string(),
        case: serde_json::to_value(case).unwrap_or(serde_json::Value::Null),
        note: note.map(|s| s.to_string()),
    };
    let _ = std::fs::write(&path, serde_json::to_string_pretty(&rf).unwrap_or_default());
    path
}

/// Runs the whole protocol for one property: replay tier of known findings, then search tier.
/// Returns the process exit code.
pub fn drive(
    prop: &'static str,
    tier: Tier,
    seed: u64,
    threads: usize,
    scale: f64,
    only_sub: Option<String>,
    replay: Option<PathBuf>,
    level_note: &str,
    body: &dyn Fn(&mut Run),
) -> i32 {
    panics::install_quiet_hook();
    let t0 = Instant::now();
    let mut run = Run::new(prop, tier, seed, threads);
    run.scale = scale;
    run.only_sub = only_sub;

    if let Some(path) = replay {
        let text = match std::fs::read_to_string(&path) {
            Ok(t) => t,
            Err(e) => {
                eprintln!("cannot read replay {}: {e}", path.display());
                return 2;
            }
        };
        let rf: ReplayFile = match serde_json::from_str(&text) {
            Ok(r) => r,
            Err(e) => {
                eprintln!("cannot parse replay {}: {e}", path.display());
                return 2;
            }
        };
        if rf.property != prop {
            eprintln!("replay file is for property {}, not {prop}", rf.property);
            return 2;
        }
        let open_sigs = run.open_signatures();
        let res = run.replay_file(rf, body);
        if !res.matched {
            eprintln!("no sub-check of {prop} matches the replay file");
            return 2;
        }
        return match res.verdict.map(|v| v.outcome) {
            Some(Outcome::Fail { msg, sig }) => {
                if let Some(s) = sig.as_ref().filter(|s| open_sigs.contains(s)) {
                    println!("KNOWN-FINDING: property={prop} signature={s} :: {}", one_line(&msg, 400));
                    0
                } else {
                    println!("VIOLATION property={prop} replay={} :: {}", path.display(), one_line(&msg, 600));
                    1
                }
            }
            Some(Outcome::Discard(w)) | Some(Outcome::Excluded(w)) => {
                println!("replay: case is outside the checked domain ({w})");
                0
            }
            _ => {
                println!("replay: property held on this case");
                0
            }
        };
    }

    // --- replay tier: every known finding of this property
    let known = run.known.clone();
    let mut resolved: Vec<String> = Vec::new();
    let mut replayed = 0u64;
    for k in &known {
        let Some(rp) = &k.replay else { continue };
        let path = verif_root().join(rp);
        let text = match std::fs::read_to_string(&path) {
            Ok(t) => t,
            Err(e) => {
                eprintln!("harness error: known finding {} names replay {} which cannot be read: {e}", k.id, path.display());
                return 2;
            }
        };
        let rf: ReplayFile = match serde_json::from_str(&text) {
            Ok(r) => r,
            Err(e) => {
                eprintln!("harness error: cannot parse replay {}: {e}", path.display());
                return 2;
            }
        };
        let res = run.replay_file(rf, body);
        if !res.matched {
            eprintln!("harness error: replay {} matches no sub-check of {prop}", path.display());
            return 2;
        }
        replayed += 1;
        let failing = res.verdict.as_ref().is_some_and(|v| v.is_fail());
        let (msg, sig) = match res.verdict.map(|v| v.outcome) {
            Some(Outcome::Fail { msg, sig }) => (msg, sig),
            _ => (String::new(), None),
        };
        match (k.status.as_str(), failing) {
            ("open", true) => {
                // an open entry with a signature only covers that signature
                if let (Some(want), Some(got)) = (&k.signature, &sig) {
                    if want != got {
                        run.violation_lines.push(format!(
                            "VIOLATION property={prop} replay={} :: known finding {} now fails differently: expected signature {want}, got {got}: {}",
                            path.display(), k.id, one_line(&msg, 300)
                        ));
                        continue;
                    }
                }
                let line = format!("KNOWN-FINDING: property={prop} {} [{}]", k.what, k.id);
                if !run.known_lines.contains(&line) {
                    run.known_lines.push(line);
                }
            }
            ("open", false) => resolved.push(k.id.clone()),
            ("fixed", true) => run.violation_lines.push(format!(
                "VIOLATION property={prop} replay={} :: fixed finding {} fails again: {}",
                path.display(),
                k.id,
                one_line(&msg, 400)
            )),
            _ => {}
        }
    }

    // --- search tier
    body(&mut run);

    // --- evidence
    let evaluations: u64 = run.subs.iter().map(|s| s.evaluations).sum::<u64>() + replayed;
    let distinct: u64 = run.subs.iter().map(|s| s.distinct_nontrivial).sum();
    let violations = run.violation_lines.len() as u64;
    let mut samples: Vec<serde_json::Value> = Vec::new();
    for s in &run.subs {
        for c in s.samples.iter().take(3) {
            samples.push(serde_json::json!({ "sub": s.name, "case": c }));
        }
    }
    if samples.is_empty() {
        samples.push(serde_json::json!("no non-trivial case was generated"));
    }
    let rule = crate::props::rule(prop);
    let mut coverage = serde_json::json!({
        "evaluations": evaluations,
        "distinct_nontrivial": distinct,
        "rule": rule,
        "samples": samples,
        "sub_checks": run.subs,
        "replayed_known_findings": replayed,
        "resolved_known_findings": resolved,
        "known_finding_lines": run.known_lines,
        "threads": threads,
        "notes": run.notes,
    });
    for (k, v) in &run.extra {
        coverage[k] = v.clone();
    }
    let evidence = serde_json::json!({
        "property_id": prop,
        "tier": tier.name(),
        "seed": seed,
        "level": "exploration",
        "coverage": coverage,
        "assumptions": [level_note],
        "wall_s": t0.elapsed().as_secs_f64(),
        "violations": violations,
    });
    let evdir = verif_root().join("evidence");
    let _ = std::fs::create_dir_all(&evdir);
    if run.only_sub.is_none() && (scale - 1.0).abs() < f64::EPSILON {
        if let Err(e) = std::fs::write(evdir.join(format!("{prop}.json")), serde_json::to_string_pretty(&evidence).unwrap()) {
            eprintln!("harness error: cannot write evidence: {e}");
            return 2;
        }
    }

    for l in &run.known_lines {
        println!("{l}");
    }
    for l in &run.violation_lines {
        println!("{l}");
    }
    for s in &run.subs {
        println!(
            "  {:<34} evals={:<9} nontrivial={:<9} distinct={:<9} discarded={} excluded={} known_hits={} {:.1}s",
            s.name,
            s.evaluations,
            s.nontrivial,
            s.distinct_nontrivial,
            s.discarded.values().sum::<u64>(),
            s.excluded_by_known_finding.values().sum::<u64>(),
            s.known_signature_hits.values().sum::<u64>(),
            s.wall_s
        );
    }
    println!(
        "{prop} {} seed={seed}: evaluations={evaluations} distinct_nontrivial={distinct} violations={violations} wall={:.1}s",
        tier.name(),
        t0.elapsed().as_secs_f64()
    );
    if violations > 0 {
        return 1;
    }
    if !run.inconclusive.is_empty() {
        for l in &run.inconclusive {
            println!("INCONCLUSIVE property={prop} {l}");
        }
        return 2;
    }
    0
}
