//! Killable worker processes.
//!
//! The same binary started as `vcheck --worker` reads line-delimited JSON requests on stdin,
//! executes one stdlib call case per request (compile + render diagnostics + type info + run,
//! each under `catch_unwind` with the panic location recorded) and answers one JSON line.
//! The parent side keeps one lazily spawned worker per thread (`exec`), enforces the per-case
//! deadline by killing the worker, and respawns a worker that died (stack overflow, abort,
//! allocation failure under `RLIMIT_AS` kill the worker, not the harness).

use std::cell::RefCell;
use std::io::{BufRead, Read, Write};
use std::os::fd::AsRawFd;
use std::os::unix::process::ExitStatusExt;
use std::panic::{catch_unwind, AssertUnwindSafe};
use std::process::{Child, ChildStderr, ChildStdin, ChildStdout, Command, Stdio};
use std::time::{Duration, Instant};

use serde::{Deserialize, Serialize};
use vrl::diagnostic::{DiagnosticList, Formatter};
use vrl::value::kind::Collection;
use vrl::value::Kind;

use crate::engine::panics;
use crate::gens::call::{bit_name, bit_of_value, value_bytes, CallCase, Form};
use crate::gens::value::TV;
use crate::model::member;
use crate::vrlx::{self, End};

pub const WORKER_AS_LIMIT: u64 = 8 << 30;
pub const WORKER_STACK: usize = 16 << 20;
/// values larger than this are not shipped back (only their size and the oracle facts are)
pub const MAX_SHIPPED_VALUE: u64 = 256 << 10;
const MARK: &str = "@@R ";

// ------------------------------------------------------------------------------------------
// protocol

#[derive(Serialize, Deserialize, Debug, Clone)]
pub enum Request {
    Ping,
    Call(CallCase),
}

#[derive(Serialize, Deserialize, Debug, Clone)]
pub enum Response {
    Pong,
    Call(Box<ExecOut>),
    BadRequest(String),
}

#[derive(Serialize, Deserialize, Debug, Clone, Copy, PartialEq, Eq)]
pub enum Stage {
    /// the compiler rejected the call (diagnostics in `codes` / `diag`)
    Rejected,
    /// compiled and ran to an end (`end`)
    Ran,
    /// code under test panicked (`panic`)
    Panicked,
}

#[derive(Serialize, Deserialize, Debug, Clone, Copy, PartialEq, Eq)]
pub enum EndClass {
    None,
    Ok,
    Return,
    Error,
    Abort,
    Other,
}

#[derive(Serialize, Deserialize, Debug, Clone)]
pub struct PanicInfo {
    /// compile | render | type_info | run
    pub phase: String,
    /// `<file>:<line>` relative to the repository / registry crate
    pub loc: String,
    pub msg: String,
}

#[derive(Serialize, Deserialize, Debug, Clone)]
pub struct ExecOut {
    pub src: String,
    /// the call was written `f!(..)`
    pub bang: bool,
    pub stage: Stage,
    pub codes: Vec<usize>,
    pub diag: String,
    pub warnings: usize,
    pub end: EndClass,
    /// result value when the run ended Ok/Return and it is small enough to ship
    pub value: Option<TV>,
    pub value_kind: String,
    pub value_bytes: u64,
    pub error: String,
    // --- declared type, read from the compiled program
    pub declared: String,
    pub declared_debug: String,
    pub declared_never: bool,
    pub declared_fallible: bool,
    // --- oracle facts that need the `Kind` (computed in the worker)
    pub member: bool,
    pub why_not: String,
    /// class of the first non-membership: never | shape | kind
    pub mismatch: String,
    /// finer: never | missing_field | missing_index | extra_field | extra_index | kind
    pub mismatch_detail: String,
    pub return_mask: u16,
    pub return_bit_ok: bool,
    pub compile_us: u64,
    pub run_us: u64,
    pub panic: Option<PanicInfo>,
}

impl ExecOut {
    fn new(src: String, bang: bool) -> ExecOut {
        ExecOut {
            src,
            bang,
            stage: Stage::Rejected,
            codes: Vec::new(),
            diag: String::new(),
            warnings: 0,
            end: EndClass::None,
            value: None,
            value_kind: String::new(),
            value_bytes: 0,
            error: String::new(),
            declared: String::new(),
            declared_debug: String::new(),
            declared_never: false,
            declared_fallible: false,
            member: false,
            why_not: String::new(),
            mismatch: String::new(),
            mismatch_detail: String::new(),
            return_mask: 0,
            return_bit_ok: false,
            compile_us: 0,
            run_us: 0,
            panic: None,
        }
    }
    pub fn reached_body(&self) -> bool {
        self.stage == Stage::Ran && matches!(self.end, EndClass::Ok | EndClass::Error | EndClass::Return)
    }
}

fn clip(s: &str, max: usize) -> String {
    if s.len() <= max {
        return s.to_string();
    }
    let mut n = max;
    while !s.is_char_boundary(n) {
        n -= 1;
    }
    format!("{}…", &s[..n])
}

// ------------------------------------------------------------------------------------------
// worker side

fn guarded<T>(phase: &str, f: impl FnOnce() -> T) -> Result<T, PanicInfo> {
    panics::clear_last();
    match catch_unwind(AssertUnwindSafe(f)) {
        Ok(v) => Ok(v),
        Err(payload) => {
            let (loc, msg) = panics::last().unwrap_or_else(|| ("unknown".to_string(), panics::payload_str(&payload)));
            Err(PanicInfo { phase: phase.to_string(), loc, msg: clip(&msg, 300) })
        }
    }
}

fn render_all(src: &str, d: &DiagnosticList) -> usize {
    let plain = Formatter::new(src, d.clone()).to_string();
    let colored = Formatter::new(src, d.clone()).colored().to_string();
    plain.len() + colored.len()
}

/// Execute one call case in this process. Every entry into code under test is guarded.
pub fn exec_call(case: &CallCase) -> ExecOut {
    let meta_kind = Kind::object(Collection::any());
    let mut bang = case.form == Form::Bang;
    let mut built = case.build(bang);
    let mut out = ExecOut::new(built.src.clone(), bang);
    let t0 = Instant::now();
    let program = loop {
        let res = guarded("compile", || vrlx::compile_ext(&built.src, built.event_kind.clone(), meta_kind.clone()));
        let res = match res {
            Ok(r) => r,
            Err(p) => {
                out.stage = Stage::Panicked;
                out.panic = Some(p);
                out.compile_us = t0.elapsed().as_micros() as u64;
                return out;
            }
        };
        match res {
            Ok(ok) => {
                out.warnings = ok.warnings.len();
                if !ok.warnings.is_empty() {
                    if let Err(p) = guarded("render", || render_all(&built.src, &ok.warnings)) {
                        out.stage = Stage::Panicked;
                        out.panic = Some(p);
                        return out;
                    }
                }
                break ok.program;
            }
            Err(diags) => {
                if let Err(p) = guarded("render", || render_all(&built.src, &diags)) {
                    out.stage = Stage::Panicked;
                    out.panic = Some(p);
                    return out;
                }
                let codes = vrlx::diag_codes(&diags);
                let only_fallible = !codes.is_empty() && codes.iter().all(|c| *c == 100 || *c == 103 || *c == 110);
                if case.form == Form::Auto && !bang && only_fallible {
                    bang = true;
                    built = case.build(true);
                    out.src = built.src.clone();
                    out.bang = true;
                    continue;
                }
                out.stage = Stage::Rejected;
                out.codes = codes;
                out.diag = clip(&vrlx::diag_summary(&diags), 400);
                out.compile_us = t0.elapsed().as_micros() as u64;
                return out;
            }
        }
    };
    out.compile_us = t0.elapsed().as_micros() as u64;

    let info = match guarded("type_info", || program.final_type_info()) {
        Ok(i) => i,
        Err(p) => {
            out.stage = Stage::Panicked;
            out.panic = Some(p);
            return out;
        }
    };
    let declared = info.result.kind().clone();
    out.declared = clip(&declared.to_string(), 300);
    out.declared_debug = clip(&format!("{declared:?}"), 600);
    out.declared_never = declared.is_never();
    out.declared_fallible = info.result.is_fallible();
    out.return_mask = vrlx::fns().iter().find(|f| f.identifier() == case.func).map(|f| f.return_kind()).unwrap_or(0);

    let t1 = Instant::now();
    let ran = guarded("run", || vrlx::run(&program, built.event.clone(), vrlx::empty_object()));
    out.run_us = t1.elapsed().as_micros() as u64;
    let ran = match ran {
        Ok(r) => r,
        Err(p) => {
            out.stage = Stage::Panicked;
            out.panic = Some(p);
            return out;
        }
    };
    out.stage = Stage::Ran;
    match &ran.end {
        End::Ok(v) | End::Return(v) => {
            out.end = if matches!(ran.end, End::Ok(_)) { EndClass::Ok } else { EndClass::Return };
            out.value_bytes = value_bytes(v);
            let bit = bit_of_value(v);
            out.value_kind = bit_name(bit).to_string();
            out.return_bit_ok = out.return_mask & bit != 0;
            out.member = member::member(v, &declared);
            if !out.member {
                out.why_not = clip(&member::why_not(v, &declared), 500);
                // signatures use the coarse class: kind (a value of a kind the type does not admit),
                // shape (a field/index the type requires is absent, or one it excludes is present),
                // never (the declared type has no members at all)
                out.mismatch = match mismatch_class(v, &declared) {
                    "missing_field" | "missing_index" | "extra_field" | "extra_index" => "shape",
                    other => other,
                }
                .to_string();
                out.mismatch_detail = mismatch_class(v, &declared).to_string();
            }
            if out.value_bytes <= MAX_SHIPPED_VALUE {
                out.value = Some(TV::from_value(v));
            }
        }
        End::Error(m) => {
            out.end = EndClass::Error;
            out.error = clip(m, 300);
        }
        End::Abort(m) => {
            out.end = EndClass::Abort;
            out.error = clip(m.as_deref().unwrap_or(""), 300);
        }
        End::Other(m) => {
            out.end = EndClass::Other;
            out.error = clip(m, 300);
        }
    }
    out
}

/// Class of the first location (same traversal order as `member::why_not`) where `v` leaves `k`.
pub fn mismatch_class(v: &vrl::value::Value, k: &Kind) -> &'static str {
    use vrl::value::kind::{Field, Index};
    use vrl::value::Value;
    fn only_undefined(k: &Kind) -> bool {
        k.is_never() || k.is_undefined()
    }
    fn go(v: &Value, k: &Kind) -> Option<&'static str> {
        if k.is_never() {
            return Some("never");
        }
        match v {
            Value::Object(map) => {
                let Some(c) = k.as_object() else { return Some("kind") };
                for (key, val) in map {
                    let fk = c.known().get(&Field::from(key.as_str())).cloned().unwrap_or_else(|| c.unknown_kind());
                    if only_undefined(&fk) {
                        return Some("extra_field");
                    }
                    if let Some(w) = go(val, &fk) {
                        return Some(w);
                    }
                }
                for (key, kk) in c.known() {
                    if !map.contains_key(key.as_str()) && !member::admits_undefined(kk) {
                        return Some("missing_field");
                    }
                }
                None
            }
            Value::Array(items) => {
                let Some(c) = k.as_array() else { return Some("kind") };
                for (i, val) in items.iter().enumerate() {
                    let ik = c.known().get(&Index::from(i)).cloned().unwrap_or_else(|| c.unknown_kind());
                    if only_undefined(&ik) {
                        return Some("extra_index");
                    }
                    if let Some(w) = go(val, &ik) {
                        return Some(w);
                    }
                }
                for (i, kk) in c.known() {
                    if i.to_usize() >= items.len() && !member::admits_undefined(kk) {
                        return Some("missing_index");
                    }
                }
                None
            }
            other => {
                if member::member(other, k) {
                    None
                } else {
                    Some("kind")
                }
            }
        }
    }
    go(v, k).unwrap_or("member")
}

fn set_memory_limit() {
    let lim = libc::rlimit { rlim_cur: WORKER_AS_LIMIT, rlim_max: WORKER_AS_LIMIT };
    // SAFETY: plain syscall with a valid pointer to a local struct
    unsafe {
        libc::setrlimit(libc::RLIMIT_AS, &lim);
    }
}

fn handle(req: Request) -> Response {
    match req {
        Request::Ping => Response::Pong,
        Request::Call(case) => Response::Call(Box::new(exec_call(&case))),
    }
}

pub fn worker_main() {
    let args: Vec<String> = std::env::args().skip(2).collect();
    if args.first().map(String::as_str) == Some("dump") {
        panics::install_quiet_hook();
        dump();
        return;
    }
    if args.first().map(String::as_str) == Some("case") {
        // triage aid: execute one case given as JSON (or @file) in this process and print the answer
        panics::install_quiet_hook();
        let text = args.get(1).cloned().unwrap_or_default();
        let text = if let Some(f) = text.strip_prefix('@') { std::fs::read_to_string(f).unwrap_or_default() } else { text };
        let v: serde_json::Value = serde_json::from_str(&text).expect("json");
        let v = if v.get("case").is_some() { v["case"].clone() } else { v };
        let case: CallCase = serde_json::from_value(v).expect("CallCase");
        let out = exec_call(&case);
        println!("{}", serde_json::to_string_pretty(&out).unwrap_or_default());
        return;
    }
    if args.first().map(String::as_str) == Some("verdict") {
        // triage aid: run one property's oracle on a case (JSON, @file, or a replay file) and
        // print the verdict with its signature
        panics::install_quiet_hook();
        let prop = args.get(1).cloned().unwrap_or_default();
        let text = args.get(2).cloned().unwrap_or_default();
        let text = if let Some(f) = text.strip_prefix('@') { std::fs::read_to_string(f).unwrap_or_default() } else { text };
        let v: serde_json::Value = serde_json::from_str(&text).expect("json");
        let v = if v.get("case").is_some() { v["case"].clone() } else { v };
        let case: CallCase = serde_json::from_value(v).expect("CallCase");
        let verdict = match prop.as_str() {
            "C03" => crate::props::c03::check(&case),
            "C04" => crate::props::c04_calls::check(&case),
            "C05" => crate::props::c05::check_replay(&case),
            _ => panic!("unknown property"),
        };
        match verdict.outcome {
            crate::engine::Outcome::Fail { msg, sig } => println!("FAIL\t{}\t{}", sig.unwrap_or_default(), msg),
            other => println!("{other:?}\tnontrivial={}\tclasses={:?}", verdict.nontrivial, verdict.classes),
        }
        return;
    }
    if args.first().map(String::as_str) == Some("eval") {
        // triage aid: compile a program against an `any` event (optional JSON event) and run it
        panics::install_quiet_hook();
        let src = args.get(1).cloned().unwrap_or_default();
        let event: vrl::value::Value = args
            .get(2)
            .and_then(|s| serde_json::from_str::<serde_json::Value>(s).ok())
            .map(vrl::value::Value::from)
            .unwrap_or_else(vrlx::empty_object);
        let r = guarded("eval", || match vrlx::compile(&src) {
            Err(d) => println!("REJECTED: {}", vrlx::diag_summary(&d)),
            Ok(res) => {
                let ti = res.program.final_type_info();
                println!("type: {} fallible={} never={}", ti.result.kind(), ti.result.is_fallible(), ti.result.kind().is_never());
                let out = vrlx::run(&res.program, event.clone(), vrlx::empty_object());
                println!("end: {:?}", out.end);
                if let Some(v) = out.end.value() {
                    println!("member: {} {}", member::member(v, ti.result.kind()), member::why_not(v, ti.result.kind()));
                }
            }
        });
        if let Err(p) = r {
            println!("PANIC at {} : {}", p.loc, p.msg);
        }
        return;
    }
    set_memory_limit();
    panics::install_quiet_hook();
    // cases run on a thread with a generous, fixed stack: an overflow then means unbounded
    // recursion, not "the default 8 MiB were a little short"
    let th = std::thread::Builder::new()
        .stack_size(WORKER_STACK)
        .spawn(|| {
            let stdin = std::io::stdin();
            let stdout = std::io::stdout();
            for line in stdin.lock().lines() {
                let Ok(line) = line else { break };
                if line.trim().is_empty() {
                    continue;
                }
                let resp = match serde_json::from_str::<Request>(&line) {
                    Ok(req) => handle(req),
                    Err(e) => Response::BadRequest(e.to_string()),
                };
                let text = serde_json::to_string(&resp).unwrap_or_else(|e| {
                    serde_json::to_string(&Response::BadRequest(format!("unserialisable response: {e}"))).unwrap_or_default()
                });
                let mut o = stdout.lock();
                if o.write_all(MARK.as_bytes()).is_err() || o.write_all(text.as_bytes()).is_err() || o.write_all(b"\n").is_err() || o.flush().is_err() {
                    break;
                }
            }
        })
        .expect("spawn worker thread");
    let _ = th.join();
}

fn dump() {
    if std::env::args().nth(3).as_deref() == Some("specs") {
        for s in crate::gens::call::specs() {
            let ps: Vec<String> = s
                .params
                .iter()
                .map(|p| format!("{}{}{}[pool {}]", p.kw, if p.pinned_lit { "=LIT" } else { "" }, if p.query { "=QUERY" } else { "" }, p.pool.len()))
                .collect();
            println!("{} seeds={} :: {}", s.name, s.seeds.len(), ps.join(", "));
        }
        return;
    }
    for f in vrlx::fns() {
        let ps: Vec<String> = f
            .parameters()
            .iter()
            .map(|p| {
                format!(
                    "{}{}:{:#x}{}",
                    p.keyword,
                    if p.required { "" } else { "?" },
                    p.kind,
                    p.enum_variants.map(|v| format!("{:?}", v.iter().map(|e| e.value).collect::<Vec<_>>())).unwrap_or_default()
                )
            })
            .collect();
        println!("{} ret={:#x} closure={} ex={} :: {}", f.identifier(), f.return_kind(), f.closure().is_some(), f.examples().len(), ps.join(", "));
    }
}

// ------------------------------------------------------------------------------------------
// parent side

#[derive(Debug, Clone, PartialEq, Eq)]
pub enum Death {
    StackOverflow,
    /// allocation failure (under the worker's `RLIMIT_AS`)
    Alloc,
    Signal(i32),
    Exit(i32),
    Unknown,
}

impl Death {
    pub fn label(&self) -> String {
        match self {
            Death::StackOverflow => "stack_overflow".to_string(),
            Death::Alloc => "alloc_failure".to_string(),
            Death::Signal(s) => format!("signal_{s}"),
            Death::Exit(c) => format!("exit_{c}"),
            Death::Unknown => "unknown".to_string(),
        }
    }
}

#[derive(Debug, Clone)]
pub enum WorkerResult {
    Done(Box<ExecOut>),
    /// the deadline (wall, or CPU time when a CPU limit was given) passed; the worker was killed
    Timeout,
    /// the wall cap passed before the CPU limit was consumed (machine too loaded, or the worker
    /// was blocked): inconclusive; the worker was killed
    Starved,
    /// the worker died while executing the case
    Died { how: Death, stderr: String },
    /// the harness could not run the case (spawn failure, protocol error)
    Harness(String),
}

struct Worker {
    child: Child,
    stdin: Option<ChildStdin>,
    stdout: ChildStdout,
    stderr: Option<ChildStderr>,
    buf: Vec<u8>,
}

enum Raw {
    Line(String),
    Timeout,
    /// the wall limit passed although the worker had consumed less CPU time than the CPU limit
    Starved,
    Eof,
}

/// Limits of one execution. With `cpu` set, the verdict "did not return" is reached on consumed
/// CPU time of the worker process (robust against a loaded machine); `wall` then only caps the
/// wait and yields `Starved` (inconclusive) when it passes first.
#[derive(Clone, Copy, Debug)]
pub struct Limits {
    pub wall: Duration,
    pub cpu: Option<Duration>,
}

fn cpu_time_of(pid: u32) -> Option<Duration> {
    let stat = std::fs::read_to_string(format!("/proc/{pid}/stat")).ok()?;
    let rest = &stat[stat.rfind(')')? + 1..];
    let f: Vec<&str> = rest.split_whitespace().collect();
    // after the command name: state is field 3, utime 14, stime 15 (1-based over the whole line)
    let utime: u64 = f.get(11)?.parse().ok()?;
    let stime: u64 = f.get(12)?.parse().ok()?;
    // SAFETY: plain sysconf call
    let tck = unsafe { libc::sysconf(libc::_SC_CLK_TCK) };
    let tck = if tck > 0 { tck as u64 } else { 100 };
    Some(Duration::from_millis((utime + stime) * 1000 / tck))
}

impl Worker {
    fn spawn() -> std::io::Result<Worker> {
        let exe = std::env::current_exe()?;
        let mut child = Command::new(exe).arg("--worker").stdin(Stdio::piped()).stdout(Stdio::piped()).stderr(Stdio::piped()).spawn()?;
        let stdin = child.stdin.take();
        let stdout = child.stdout.take().ok_or_else(|| std::io::Error::other("no stdout"))?;
        let stderr = child.stderr.take();
        Ok(Worker { child, stdin, stdout, stderr, buf: Vec::new() })
    }

    fn send(&mut self, line: &str) -> std::io::Result<()> {
        let Some(w) = self.stdin.as_mut() else { return Err(std::io::Error::other("stdin closed")) };
        w.write_all(line.as_bytes())?;
        w.write_all(b"\n")?;
        w.flush()
    }

    /// next protocol line, or timeout / EOF
    fn recv(&mut self, limits: Limits) -> Raw {
        let deadline = Instant::now() + limits.wall;
        let cpu0 = limits.cpu.and_then(|_| cpu_time_of(self.child.id())).unwrap_or_default();
        loop {
            while let Some(nl) = self.buf.iter().position(|b| *b == b'\n') {
                let line: Vec<u8> = self.buf.drain(..=nl).collect();
                let text = String::from_utf8_lossy(&line[..line.len() - 1]).to_string();
                if let Some(rest) = text.strip_prefix(MARK) {
                    return Raw::Line(rest.to_string());
                }
                // anything else on stdout is noise from code under test: ignore
            }
            if let Some(limit) = limits.cpu {
                if let Some(used) = cpu_time_of(self.child.id()) {
                    if used.saturating_sub(cpu0) >= limit {
                        return Raw::Timeout;
                    }
                }
            }
            let now = Instant::now();
            if now >= deadline {
                return if limits.cpu.is_some() { Raw::Starved } else { Raw::Timeout };
            }
            let mut ms = (deadline - now).as_millis().min(i32::MAX as u128) as i32;
            if limits.cpu.is_some() {
                ms = ms.min(200);
            }
            let mut pfd = libc::pollfd { fd: self.stdout.as_raw_fd(), events: libc::POLLIN, revents: 0 };
            // SAFETY: one valid pollfd
            let rc = unsafe { libc::poll(&mut pfd, 1, ms.max(1)) };
            if rc < 0 {
                let e = std::io::Error::last_os_error();
                if e.kind() == std::io::ErrorKind::Interrupted {
                    continue;
                }
                return Raw::Eof;
            }
            if rc == 0 {
                continue; // deadline is re-checked at the top
            }
            let mut chunk = [0u8; 65536];
            match self.stdout.read(&mut chunk) {
                Ok(0) => return Raw::Eof,
                Ok(n) => self.buf.extend_from_slice(&chunk[..n]),
                Err(e) if e.kind() == std::io::ErrorKind::Interrupted => {}
                Err(_) => return Raw::Eof,
            }
        }
    }

    /// kill (if still alive), reap and classify
    fn finish(mut self) -> (Death, String) {
        let _ = self.child.kill();
        self.stdin.take();
        let status = self.child.wait().ok();
        let mut err = String::new();
        if let Some(mut e) = self.stderr.take() {
            let mut bytes = Vec::new();
            let _ = e.read_to_end(&mut bytes);
            err = String::from_utf8_lossy(&bytes).to_string();
        }
        let how = if err.contains("has overflowed its stack") {
            Death::StackOverflow
        } else if err.contains("memory allocation of") {
            Death::Alloc
        } else {
            match status {
                Some(s) => match (s.signal(), s.code()) {
                    (Some(sig), _) => Death::Signal(sig),
                    (None, Some(c)) => Death::Exit(c),
                    _ => Death::Unknown,
                },
                None => Death::Unknown,
            }
        };
        (how, clip(err.trim(), 400))
    }
}

impl Drop for Worker {
    fn drop(&mut self) {
        self.stdin.take();
        let _ = self.child.kill();
        let _ = self.child.wait();
    }
}

thread_local! {
    static WORKER: RefCell<Option<Worker>> = const { RefCell::new(None) };
}

fn exec_on(slot: &mut Option<Worker>, case: &CallCase, limits: Limits) -> WorkerResult {
    let line = match serde_json::to_string(&Request::Call(case.clone())) {
        Ok(l) => l,
        Err(e) => return WorkerResult::Harness(format!("case does not serialise: {e}")),
    };
    for attempt in 0..2 {
        if slot.is_none() {
            match Worker::spawn() {
                Ok(w) => *slot = Some(w),
                Err(e) => return WorkerResult::Harness(format!("cannot spawn worker: {e}")),
            }
        }
        let w = slot.as_mut().expect("worker present");
        if w.send(&line).is_err() {
            // the worker was already dead (e.g. killed from outside): respawn once
            if let Some(w) = slot.take() {
                let _ = w.finish();
            }
            if attempt == 0 {
                continue;
            }
            return WorkerResult::Harness("worker does not accept requests".to_string());
        }
        return match w.recv(limits) {
            Raw::Line(text) => match serde_json::from_str::<Response>(&text) {
                Ok(Response::Call(out)) => WorkerResult::Done(out),
                Ok(other) => WorkerResult::Harness(format!("unexpected worker answer: {other:?}")),
                Err(e) => WorkerResult::Harness(format!("unparsable worker answer: {e}: {}", clip(&text, 200))),
            },
            Raw::Timeout => {
                if let Some(w) = slot.take() {
                    let _ = w.finish();
                }
                WorkerResult::Timeout
            }
            Raw::Starved => {
                if let Some(w) = slot.take() {
                    let _ = w.finish();
                }
                WorkerResult::Starved
            }
            Raw::Eof => {
                let (how, stderr) = slot.take().map(Worker::finish).unwrap_or((Death::Unknown, String::new()));
                WorkerResult::Died { how, stderr }
            }
        };
    }
    WorkerResult::Harness("unreachable".to_string())
}

/// Execute a case on this thread's worker (spawned on first use, respawned after a kill/death).
pub fn exec(case: &CallCase, deadline: Duration) -> WorkerResult {
    WORKER.with(|w| exec_on(&mut w.borrow_mut(), case, Limits { wall: deadline, cpu: None }))
}

/// Execute a case alone in a fresh worker that is discarded afterwards.
pub fn exec_fresh(case: &CallCase, limits: Limits) -> WorkerResult {
    let mut slot: Option<Worker> = None;
    let r = exec_on(&mut slot, case, limits);
    if let Some(w) = slot.take() {
        drop(w);
    }
    r
}

/// Drop this thread's worker (used by tests of the engine and at the end of a replay).
pub fn retire() {
    WORKER.with(|w| {
        w.borrow_mut().take();
    });
}

#[allow(dead_code)]
fn _buf_read_is_used(_: &dyn BufRead) {}
