//! Killable worker processes (filled in with the stdlib call engine).

pub fn worker_main() {
    eprintln!("worker mode not built yet");
    std::process::exit(2);
}
