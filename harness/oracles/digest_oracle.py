#!/usr/bin/env python3
"""Reference digests for vcheck property C27 (independent of the Rust crates vrl uses).

Protocol (line oriented, over stdin/stdout):
  startup   -> "READY <name> <name> ..."       the fixed order of the digests in every answer
  request   <- "<hex data> <hex key>"           "-" stands for the empty byte string
  answer    -> "<hex> <hex> ..."                one lower-case hex digest per name, same order
  any problem -> "ERROR <text>" and exit status 3

Digests come from hashlib / hmac (OpenSSL + CPython's own SHA-3), nothing else.
"""
import hashlib
import hmac
import sys

PLAIN = [
    ("md5", "md5"),
    ("sha1", "sha1"),
    ("sha224", "sha224"),
    ("sha256", "sha256"),
    ("sha384", "sha384"),
    ("sha512", "sha512"),
    ("sha512_224", "sha512_224"),
    ("sha512_256", "sha512_256"),
    ("sha3_224", "sha3_224"),
    ("sha3_256", "sha3_256"),
    ("sha3_384", "sha3_384"),
    ("sha3_512", "sha3_512"),
]
HMACS = [
    ("hmac_sha1", "sha1"),
    ("hmac_sha224", "sha224"),
    ("hmac_sha256", "sha256"),
    ("hmac_sha384", "sha384"),
    ("hmac_sha512", "sha512"),
]


def unhex(tok):
    return b"" if tok == "-" else bytes.fromhex(tok)


def main():
    out = sys.stdout
    try:
        for _, h in PLAIN:
            hashlib.new(h, b"")
        for _, h in HMACS:
            hmac.new(b"k", b"", h)
    except Exception as e:  # pragma: no cover - environment problem
        out.write("ERROR hash algorithm unavailable: %r\n" % (e,))
        out.flush()
        return 3
    out.write("READY " + " ".join([n for n, _ in PLAIN] + [n for n, _ in HMACS]) + "\n")
    out.flush()
    for line in sys.stdin:
        parts = line.split()
        if not parts:
            continue
        if len(parts) != 2:
            out.write("ERROR malformed request\n")
            out.flush()
            return 3
        try:
            data = unhex(parts[0])
            key = unhex(parts[1])
        except ValueError as e:
            out.write("ERROR bad hex: %r\n" % (e,))
            out.flush()
            return 3
        res = [hashlib.new(h, data).hexdigest() for _, h in PLAIN]
        res += [hmac.new(key, data, h).hexdigest() for _, h in HMACS]
        out.write(" ".join(res) + "\n")
        out.flush()
    return 0


if __name__ == "__main__":
    sys.exit(main())
